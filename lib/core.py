"""Shared machinery of the checks: cache keys, TLC invocation and output
parsing, trace-batch validation, evidence and verdict reporting."""
import fcntl
import glob
import hashlib
import json
import os
import re
import shutil
import subprocess
import sys
import tempfile
import time
from concurrent.futures import ThreadPoolExecutor

VERIF = os.path.dirname(os.path.dirname(os.path.abspath(__file__)))
SPEC = os.path.join(VERIF, "spec")
REPO = os.environ.get("TOPSIM_SRC", "/repo")
CACHE = os.path.join(VERIF, ".cache")
EVID = os.path.join(VERIF, "evidence")
REPLAYS = os.path.join(VERIF, "replays")
JAR = "/opt/veriftools/tla/tla2tools.jar:/opt/veriftools/tla/CommunityModules-deps.jar"
NCPU = min(16, os.cpu_count() or 4)


class MachineryError(Exception):
    pass


def seed():
    return int(os.environ.get("VERIF_SEED", "0"))


def sha_files(paths):
    h = hashlib.sha256()
    for p in sorted(paths):
        h.update(p.encode())
        with open(p, "rb") as f:
            h.update(f.read())
    return h.hexdigest()


def tree_key(*extra):
    files = glob.glob(os.path.join(REPO, "topsim", "**", "*.py"), recursive=True)
    files += glob.glob(os.path.join(VERIF, "harness", "*.py"))
    files += glob.glob(os.path.join(VERIF, "lib", "*.py"))
    files += glob.glob(os.path.join(SPEC, "*.tla"))
    h = sha_files(files)
    return hashlib.sha256((h + "|" + "|".join(str(e) for e in extra)).encode()).hexdigest()[:20]


def prune_cache(max_age_s=6 * 3600):
    """the cache is keyed by the hash of the tree under test and of the
    machinery: entries of trees that no longer exist pile up; drop old ones"""
    now = time.time()
    try:
        names = os.listdir(CACHE)
    except OSError:
        return
    for n in names:
        p = os.path.join(CACHE, n)
        try:
            if now - os.path.getmtime(p) > max_age_s:
                if os.path.isdir(p):
                    shutil.rmtree(p, ignore_errors=True)
                else:
                    os.remove(p)
        except OSError:
            pass


def scratch():
    base = os.environ.get("VERIF_SCRATCH") or tempfile.gettempdir()
    return tempfile.mkdtemp(prefix="verif_", dir=base)


# --------------------------------------------------------------------------
# TLC

def run_tlc(module, cfg_text, workers=NCPU, env=None, timeout=3600, heap="6g",
            extra_args=(), serial_gc=False, simulate=None):
    """runs TLC on spec/<module>.tla with the given configuration text.
    Returns dict(out, rc, states, distinct, depth, wall)."""
    sd = scratch()
    try:
        cfgp = os.path.join(sd, "run.cfg")
        with open(cfgp, "w") as f:
            f.write(cfg_text)
        cmd = ["java"]
        cmd += ["-XX:+UseSerialGC"] if serial_gc else ["-XX:+UseParallelGC", f"-XX:ParallelGCThreads={max(2, min(4, workers))}"]
        cmd += [f"-Djava.io.tmpdir={sd}", f"-Xmx{heap}", "-cp", JAR, "tlc2.TLC", "-workers", str(workers),
                "-metadir", os.path.join(sd, "meta"), "-noGenerateSpecTE", "-config", cfgp]
        if simulate:
            cmd += ["-simulate", simulate]
        cmd += list(extra_args) + [module]
        e = dict(os.environ)
        e.pop("JAVA_TOOL_OPTIONS", None)
        if env:
            e.update(env)
        t0 = time.time()
        pr = subprocess.run(cmd, cwd=SPEC, env=e, stdout=subprocess.PIPE, stderr=subprocess.STDOUT,
                            timeout=timeout, text=True)
        out = pr.stdout
        res = {"out": out, "rc": pr.returncode, "wall": time.time() - t0, "cmd": " ".join(cmd)}
        m = re.search(r"(\d[\d,]*) states generated, (\d[\d,]*) distinct states found", out)
        if m:
            res["states"] = int(m.group(2).replace(",", ""))
            res["transitions"] = int(m.group(1).replace(",", ""))
        m = re.search(r"depth of the complete state graph search is (\d+)", out)
        res["depth"] = int(m.group(1)) if m else 0
        return res
    finally:
        shutil.rmtree(sd, ignore_errors=True)
        for d in glob.glob(os.path.join(tempfile.gettempdir(), "tlc-*")):
            # TLC unpacks its standard modules there; remove ours only
            try:
                if time.time() - os.path.getmtime(d) > 3600:
                    shutil.rmtree(d, ignore_errors=True)
            except OSError:
                pass


def tlc_violation(out):
    """name of the violated invariant / property in a TLC output, or None"""
    m = re.search(r"Error: Invariant (\S+) is violated", out)
    if m:
        return m.group(1)
    m = re.search(r"Error: Action property (\S+) is violated", out)
    if m:
        return m.group(1)
    m = re.search(r"Error: Temporal properties were violated", out)
    if m:
        return "temporal"
    if "Error: Deadlock reached" in out:
        return "deadlock"
    return None


def tlc_failed(out):
    """TLC machinery failure (parse error, evaluation error)"""
    if tlc_violation(out):
        return False
    return bool(re.search(r"Error: |Parsing or semantic analysis failed|Exception", out))


def coverage_counts(out):
    """per-action counts from `-coverage` output: {action: (distinct, total)}"""
    res = {}
    for m in re.finditer(r"<(\w+) line \d+, col \d+ to line \d+, col \d+ of module \w+>: (\d+):(\d+)", out):
        res[m.group(1)] = (int(m.group(2)), int(m.group(3)))
    return res


# --------------------------------------------------------------------------
# trace batches

VERDICT_RE = re.compile(r'^<<"(L1|DRIFT|PROPOSAL|ORDER|DONE)", (\d+), (\d+)(?:, (.*))?>>$')


def parse_verdicts(out):
    res = []
    for line in out.splitlines():
        m = VERDICT_RE.match(line.strip())
        if not m:
            continue
        kind, tid, l, rest = m.group(1), int(m.group(2)), int(m.group(3)), m.group(4) or ""
        res.append({"kind": kind, "tid": tid, "l": l, "what": rest.strip().strip('"')})
    return res


def _tlc_trace(path):
    return run_tlc("TraceSim", "SPECIFICATION TSpec\nCHECK_DEADLOCK FALSE\n", workers=1,
                   env={"TRACE_FILE": path}, heap="3g", serial_gc=True, timeout=7200)


def validate_shard(path):
    """TLC verdicts for one shard of traces.  Should TLC abort with an
    evaluation error (data the specification's operators are not defined on -
    only possible on a changed tree), the shard is re-judged trace by trace so
    that every other trace still gets its verdicts; the trace TLC could not
    evaluate is reported as `EVALERR` (counted with the L2 drift)."""
    r = _tlc_trace(path)
    if not tlc_failed(r["out"]) and "Model checking completed" in r["out"]:
        return r
    if "Parsing or semantic analysis failed" in r["out"] or "Parse Error" in r["out"]:
        raise MachineryError("TLC failed on trace shard %s:\n%s" % (path, r["out"][-3000:]))
    with open(path) as f:
        sh = json.load(f)
    if len(sh["traces"]) <= 1:
        m = re.search(r"The exception was a [^\n]*\n: ([^\n]*)", r["out"])
        why = (m.group(1) if m else "evaluation error")[:150].replace('"', "'")
        r["out"] = '<<"DRIFT", 1, 1, "EVALERR %s">>\n<<"DONE", 1, %d>>\nModel checking completed (single trace not evaluable)\n' % (
            why, len(sh["traces"][0]["steps"]) if sh["traces"] else 0)
        return r
    lines = []
    sd = scratch()
    try:
        for i, tr in enumerate(sh["traces"]):
            p1 = os.path.join(sd, "one_%d.json" % i)
            with open(p1, "w") as f:
                json.dump({"traces": [tr], "gids": [0]}, f)
            r1 = validate_shard(p1)
            os.remove(p1)
            for v in parse_verdicts(r1["out"]):
                rest = (', "%s"' % v["what"]) if v["kind"] not in ("DONE", "ORDER") else ""
                lines.append('<<"%s", %d, %d%s>>' % (v["kind"], i + 1, v["l"], rest))
    finally:
        shutil.rmtree(sd, ignore_errors=True)
    r["out"] = "\n".join(lines) + "\nModel checking completed (re-judged trace by trace)\n"
    return r


def _make_sim_traces(tier):
    from harness import batch
    joblist = batch.jobs(tier, seed())
    return batch.make_traces(joblist, workers=NCPU)


def _make_api_traces(tier):
    from harness import api_cluster as A
    from concurrent.futures import ProcessPoolExecutor
    cfg = A.api_cfg()
    tick = {"op": "Tick"}
    depth = 2 if tier == "quick" else 3
    hs = [h + [tick, tick, tick] for h in A.histories(depth)]
    hs += A.random_histories(seed(), 300 if tier == "quick" else 3000)
    with ProcessPoolExecutor(max_workers=NCPU) as ex:
        return list(ex.map(A.run_history, [cfg] * len(hs), hs, chunksize=16))


def _make_bufapi_traces(tier):
    from harness import api_buffer as B
    from concurrent.futures import ProcessPoolExecutor
    sc = B.scenarios(tier, seed())
    with ProcessPoolExecutor(max_workers=NCPU) as ex:
        return list(ex.map(B.run_history, sc, chunksize=8))


BUILDERS = {"simbatch": _make_sim_traces, "apibatch": _make_api_traces, "bufapibatch": _make_bufapi_traces}


def trace_batch(name, tier):
    """generates (or loads from the cache) a batch of real executions for
    this tree / tier / seed and TLC's verdicts on it."""
    key = tree_key(name, tier, seed())
    d = os.path.join(CACHE, key)
    os.makedirs(CACHE, exist_ok=True)
    lock = open(os.path.join(CACHE, key + ".lock"), "w")
    fcntl.flock(lock, fcntl.LOCK_EX)
    try:
        done = os.path.join(d, "verdicts.json")
        if os.path.exists(done):
            with open(done) as f:
                return json.load(f), d
        prune_cache()
        shutil.rmtree(d, ignore_errors=True)
        os.makedirs(d)
        t0 = time.time()
        if VERIF not in sys.path:
            sys.path.insert(0, VERIF)
        from harness import batch
        traces = BUILDERS[name](tier)
        t_run = time.time() - t0
        paths = batch.write_shards(traces, d, nshards=NCPU)
        t1 = time.time()
        with ThreadPoolExecutor(max_workers=NCPU) as ex:
            results = list(ex.map(validate_shard, paths))
        verdicts, steps = [], 0
        meta = [None] * len(traces)
        for p, r in zip(paths, results):
            with open(p) as f:
                sh = json.load(f)
            gids = sh["gids"]
            vs = parse_verdicts(r["out"])
            done_tids = {v["tid"] for v in vs if v["kind"] == "DONE"}
            if done_tids != set(range(1, len(gids) + 1)):
                raise MachineryError(f"trace shard {p}: TLC did not consume every trace "
                                     f"({len(done_tids)} of {len(gids)})\n" + r["out"][-2000:])
            for v in vs:
                if v["kind"] == "DONE":
                    steps += v["l"]
                    continue
                v["gid"] = gids[v["tid"] - 1]
                v["shard"] = os.path.basename(p)
                verdicts.append(v)
            for j, g in enumerate(gids):
                tr = sh["traces"][j]
                e = tr["end"]
                meta[g] = {"gid": g, "tag": tr["tag"], "alg": tr["cfg"]["alg"], "steps": len(tr["steps"]),
                           "completed": e["completed"], "exc": e["exc"]["type"], "t": e["t"],
                           "shard": os.path.basename(p), "tid": j + 1,
                           "nobs": len(tr["cfg"]["obs"]),
                           "ntasks": sum(len(o["wf"]["nodes"]) for o in tr["cfg"]["obs"])}
                if "ops" in tr:
                    meta[g]["ops"] = len(tr["ops"])
        res = {"key": key, "tier": tier, "seed": seed(), "ntraces": len(traces), "steps": steps,
               "verdicts": verdicts, "meta": meta, "t_run": t_run, "t_tlc": time.time() - t1}
        with open(done, "w") as f:
            json.dump(res, f)
        return res, d
    finally:
        fcntl.flock(lock, fcntl.LOCK_UN)
        lock.close()


EQ_RE = re.compile(r'^<<"(EQ|EQDONE)", (\d+)(?:, "([^"]*)", (\d+))?>>$')


def validate_pairs(path):
    r = run_tlc("TraceEq", "SPECIFICATION ESpec\nCHECK_DEADLOCK FALSE\n", workers=1,
                env={"TRACE_FILE": path}, heap="4g", serial_gc=True, timeout=7200)
    if tlc_failed(r["out"]) or "Model checking completed" not in r["out"]:
        raise MachineryError("TLC failed on pair file %s:\n%s" % (path, r["out"][-3000:]))
    res, done = [], set()
    for line in r["out"].splitlines():
        m = EQ_RE.match(line.strip())
        if not m:
            continue
        if m.group(1) == "EQDONE":
            done.add(int(m.group(2)))
        else:
            res.append({"i": int(m.group(2)), "what": m.group(3), "at": int(m.group(4))})
    return res, done


def pair_batch(name, tier, builder):
    """pairs of executions that must coincide, judged by TLC (spec/TraceEq.tla);
    builder(tier, seed) -> (pairs, traces-for-TraceSim or [])"""
    key = tree_key(name, tier, seed())
    d = os.path.join(CACHE, key)
    os.makedirs(CACHE, exist_ok=True)
    lock = open(os.path.join(CACHE, key + ".lock"), "w")
    fcntl.flock(lock, fcntl.LOCK_EX)
    try:
        done = os.path.join(d, "verdicts.json")
        if os.path.exists(done):
            with open(done) as f:
                return json.load(f), d
        prune_cache()
        shutil.rmtree(d, ignore_errors=True)
        os.makedirs(d)
        if VERIF not in sys.path:
            sys.path.insert(0, VERIF)
        from harness import batch
        t0 = time.time()
        pairs, traces = builder(tier, seed())
        t_run = time.time() - t0
        n = len(pairs)
        nsh = min(NCPU, max(1, n))
        paths = []
        for sidx in range(nsh):
            idxs = list(range(sidx, n, nsh))
            pth = os.path.join(d, f"pairs_{sidx:02d}.json")
            with open(pth, "w") as f:
                json.dump({"pairs": [pairs[i] for i in idxs], "gids": idxs}, f)
            paths.append((pth, idxs))
        t1 = time.time()
        with ThreadPoolExecutor(max_workers=NCPU) as ex:
            results = list(ex.map(lambda pi: validate_pairs(pi[0]), paths))
        verdicts = []
        for (pth, idxs), (res, dn) in zip(paths, results):
            if dn != set(range(1, len(idxs) + 1)):
                raise MachineryError("TLC did not judge every pair of %s" % pth)
            for v in res:
                v["gid"] = idxs[v["i"] - 1]
                v["file"] = os.path.basename(pth)
                verdicts.append(v)
        out = {"npairs": n, "verdicts": verdicts, "t_run": t_run, "t_tlc": time.time() - t1,
               "what": [p["what"] if not isinstance(p["what"].get("cfg"), dict) else
                        {k: v for k, v in p["what"].items() if k != "cfg"} | {"alg": p["what"]["cfg"]["alg"]}
                        for p in pairs],
               "events": sum(len(p["b"]["states"]) for p in pairs)}
        tv = None
        if traces:
            tpaths = batch.write_shards(traces, os.path.join(d, "tr"), nshards=NCPU)
            with ThreadPoolExecutor(max_workers=NCPU) as ex:
                tres = list(ex.map(validate_shard, tpaths))
            tv = []
            steps = 0
            for pth, r in zip(tpaths, tres):
                with open(pth) as f:
                    gids = json.load(f)["gids"]
                vs = parse_verdicts(r["out"])
                if {v["tid"] for v in vs if v["kind"] == "DONE"} != set(range(1, len(gids) + 1)):
                    raise MachineryError("TLC did not consume every trace of %s" % pth)
                for v in vs:
                    if v["kind"] == "DONE":
                        steps += v["l"]
                    else:
                        v["gid"] = gids[v["tid"] - 1]
                        tv.append(v)
            out["trace_verdicts"] = tv
            out["trace_steps"] = steps
            out["ntraces"] = len(traces)
        with open(done, "w") as f:
            json.dump(out, f)
        return out, d
    finally:
        fcntl.flock(lock, fcntl.LOCK_UN)
        lock.close()


def load_pair(d, v):
    with open(os.path.join(d, v["file"])) as f:
        return json.load(f)["pairs"][v["i"] - 1]


def sim_batch(tier):
    return trace_batch("simbatch", tier)


def load_trace(batch_dir, meta):
    with open(os.path.join(batch_dir, meta["shard"])) as f:
        sh = json.load(f)
    return sh["traces"][meta["tid"] - 1]


# --------------------------------------------------------------------------
# known findings, evidence, reporting

def known_findings():
    p = os.path.join(VERIF, "KNOWN_FINDINGS.jsonl")
    out = []
    if os.path.exists(p):
        for line in open(p):
            line = line.strip()
            if line:
                out.append(json.loads(line))
    return out


def write_replay(pid, name, payload):
    os.makedirs(REPLAYS, exist_ok=True)
    h = hashlib.sha256(json.dumps(payload, sort_keys=True).encode()).hexdigest()[:12]
    p = os.path.join(REPLAYS, f"{pid}_{name}_{h}.json")
    with open(p, "w") as f:
        json.dump(payload, f)
    return p


def write_evidence(pid, tier, level, coverage, wall, violations, assumptions):
    os.makedirs(EVID, exist_ok=True)
    ev = {"property_id": pid, "tier": tier, "seed": seed(), "level": level,
          "coverage": coverage, "assumptions": assumptions, "wall_s": round(wall, 2),
          "violations": violations}
    with open(os.path.join(EVID, f"{pid}.json"), "w") as f:
        json.dump(ev, f, indent=1)
    return ev
