"""Property-specific parts: component replays, pure-function vectors,
reproducibility and pause/resume drivers."""
import json
import os
import sys
import time

from . import core
from .core import MachineryError

CHECKS = {}
EXTRA = {}

API_INVS = {
    "C01": (["I_exec", "I_claim", "I_pool"], ["A_noreclaim"]),
    "C02": (["I_partition", "I_counts", "I_numprov"], ["A_refusedSync"]),
    "C09": (["I_partition"], ["A_reserved"]),
    "C19": (["I_idle"], []),
}


def api_part(pid, tier, out):
    """Cluster operation histories: TLC explores every operation sequence of
    spec/ClusterAPI.tla up to a depth bound; real histories executed on a
    real Cluster are validated event by event against the same spec."""
    invs, props = API_INVS[pid]
    depth = 6 if tier == "quick" else 8
    cfg = "SPECIFICATION ASpec\nCONSTANT MaxDepth = %d\n" % depth
    cfg += "".join("INVARIANT %s\n" % i for i in invs) + "".join("PROPERTY %s\n" % p for p in props)
    cfg += "CHECK_DEADLOCK FALSE\n"
    r = core.run_tlc("MC_ClusterAPI", cfg, heap="12g")
    if core.tlc_failed(r["out"]):
        raise MachineryError("TLC failed on MC_ClusterAPI:\n" + r["out"][-3000:])
    v = core.tlc_violation(r["out"])
    out["states"] += r.get("states", 0)
    out["transitions"] += r.get("transitions", 0)
    out["samples"].append({"mc": "MC_ClusterAPI", "max_depth": depth, "invariants": invs, "properties": props,
                           "states": r.get("states", 0), "violated": v, "wall_s": round(r["wall"], 1)})
    if v:
        i = r["out"].find("Error:")
        path = core.write_replay(pid, "mc_api", {"kind": "mc", "family": "ClusterAPI", "violated": v,
                                                  "tlc": r["out"][i:i + 20000]})
        out["violations"].append(("design-level: %s violated for Cluster operation histories" % v, path))
    batch, bdir = core.trace_batch("apibatch", tier)
    prefix = pid + "."
    mine = [x for x in batch["verdicts"] if x["kind"] == "L1" and x["what"].startswith(prefix)]
    by_gid = {}
    for x in mine:
        by_gid.setdefault(x["gid"], []).append(x)
    for gid, vs in sorted(by_gid.items())[:20]:
        tr = core.load_trace(bdir, batch["meta"][gid])
        clauses = sorted({x["what"] for x in vs})
        path = core.write_replay(pid, "api", {"kind": "api", "property": pid, "clauses": clauses,
                                              "ops": tr["ops"], "first_step": min(x["l"] for x in vs)})
        out["violations"].append(("Cluster history %s: clauses %s" % (json.dumps(tr["ops"])[:200], ",".join(clauses)), path))
    drift = [x for x in batch["verdicts"] if x["kind"] == "DRIFT"]
    out["extra_traces"] = out.get("extra_traces", 0) + batch["ntraces"]
    ec = out.setdefault("extra_cov", {})
    ec["cluster_histories_executed"] = batch["ntraces"]
    ec["cluster_history_events_validated"] = batch["steps"]
    ec["cluster_history_l2_drift"] = len(drift)
    if drift:
        print("DRIFT(api): %d events of Cluster histories are not steps of spec/ClusterAPI; first %s"
              % (len(drift), json.dumps(drift[0])))


def apalache_part(pid, tier, out):
    """unbounded operation histories: the pool partition and the reservation
    counter are an inductive invariant of spec/apalache/ClusterPools.tla
    (Apalache: Init => IndInv, IndInv /\\ Next => IndInv')"""
    import shutil
    import subprocess
    if shutil.which("apalache-mc") is None:
        out["samples"].append({"apalache": "not installed - skipped"})
        return
    sd = core.scratch()
    try:
        res = []
        for init, length in (("Init", 0), ("IndInit", 1)):
            r = subprocess.run(["apalache-mc", "check", "--cinit=CInit", "--init=" + init, "--inv=IndInv",
                                "--length=%d" % length, "--out-dir=" + os.path.join(sd, "out"), "ClusterPools.tla"],
                               cwd=os.path.join(core.SPEC, "apalache"), stdout=subprocess.PIPE,
                               stderr=subprocess.STDOUT, text=True, timeout=1800)
            ok = "EXITCODE: OK" in r.stdout
            err = "Checker has found an error" in r.stdout
            if not ok and not err:
                raise MachineryError("apalache-mc failed:\n" + r.stdout[-2000:])
            res.append({"init": init, "length": length, "holds": ok})
            if err:
                path = core.write_replay(pid, "apalache", {"kind": "mc", "family": "ClusterPools", "violated": "IndInv",
                                                            "tlc": r.stdout[-6000:]})
                out["violations"].append(("design-level: IndInv of ClusterPools is not inductive (%s)" % init, path))
    finally:
        shutil.rmtree(sd, ignore_errors=True)
        for junk in ("detailed.log", "log0.smt", "profile-rules.txt"):
            try:
                os.remove(os.path.join(core.SPEC, "apalache", junk))
            except OSError:
                pass
    out["samples"].append({"apalache": "ClusterPools.tla IndInv inductive for unbounded operation histories (4 machines, 3 observations)",
                           "obligations": res})
    out.setdefault("extra_cov", {})["apalache_inductive_invariant"] = all(x["holds"] for x in res)


def _seg_trace(d, gid):
    import glob
    for sp in sorted(glob.glob(os.path.join(d, "tr", "shard_*.json"))):
        with open(sp) as f:
            sh = json.load(f)
        if gid in sh["gids"]:
            return sh["traces"][sh["gids"].index(gid)]
    return None


def seg_part(pid, tier, out):
    """interrupted executions (start(k), resume(u) ...): the property's clauses
    on the traces of the pause/resume batch"""
    if core.VERIF not in sys.path:
        sys.path.insert(0, core.VERIF)
    from harness import pairs
    res, d = core.pair_batch("segpairs", tier, lambda t, s: pairs.seg_pairs(t, s, core.NCPU))
    mine = [v for v in (res.get("trace_verdicts") or []) if v["kind"] == "L1" and v["what"].startswith(pid + ".")]
    seen = set()
    for v in mine:
        if v["gid"] in seen or len(seen) >= 10:
            continue
        seen.add(v["gid"])
        tr = _seg_trace(d, v["gid"])
        if tr is not None:
            clauses = sorted({x["what"] for x in mine if x["gid"] == v["gid"]})
            path = core.write_replay(pid, "segtrace", {"kind": "trace", "property": pid, "clauses": clauses,
                                                        "first_step": v["l"], "cfg": tr["cfg"], "segs": tr["segs"],
                                                        "perm": -1, "tag": "seg"})
        else:
            path = core.write_replay(pid, "segtrace", {"kind": "note", "property": pid, "verdict": v})
        out["violations"].append(("clause %s fails in an interrupted execution (pause/resume) at event %d" % (v["what"], v["l"]), path))
    out["extra_traces"] = out.get("extra_traces", 0) + res.get("ntraces", 0)
    out.setdefault("extra_cov", {})["interrupted_traces_validated"] = res.get("ntraces", 0)


EXTRA.setdefault("C05", []).append(seg_part)     # pausing and resuming must not block anything either
EXTRA.setdefault("C12", []).append(seg_part)
EXTRA.setdefault("C13", []).append(seg_part)

for _p in API_INVS:
    EXTRA.setdefault(_p, []).append(api_part)
EXTRA.setdefault("C02", []).append(apalache_part)


ASSUME_PAIR = [
    "TLC 1.8 and the CommunityModules are trusted",
    "the harness' projection (harness/tracer.py) is faithful; wall-clock algorithm-timing columns are not part of the comparison",
]


def _mc_simple(pid, fams, invs, props, out):
    from . import main as M
    for fam in fams:
        r = core.run_tlc("MC_Sim", M.mc_cfg(fam, invs, props), heap="12g")
        if core.tlc_failed(r["out"]):
            raise MachineryError("TLC failed on MC_Sim family %s:\n%s" % (fam, r["out"][-3000:]))
        v = core.tlc_violation(r["out"])
        out["states"] += r.get("states", 0)
        out["transitions"] += r.get("transitions", 0)
        out["samples"].append({"mc_family": fam, "invariants": invs, "properties": props,
                               "states": r.get("states", 0), "violated": v, "wall_s": round(r["wall"], 1)})
        if v:
            i = r["out"].find("Error:")
            path = core.write_replay(pid, "mc_" + fam, {"kind": "mc", "family": fam, "violated": v,
                                                         "tlc": r["out"][i:i + 20000]})
            out["violations"].append(("design-level: %s violated in family %s" % (v, fam), path))


def check_pairs(pid, tier, name, builder, label, mc):
    from . import main as M
    t0 = time.time()
    out = {"violations": [], "known": [], "states": 0, "transitions": 0, "samples": []}
    if core.VERIF not in sys.path:
        sys.path.insert(0, core.VERIF)
    res, d = core.pair_batch(name, tier, builder)
    by = {}
    for v in res["verdicts"]:
        by.setdefault(v["gid"], []).append(v)
    for gid, vs in sorted(by.items())[:20]:
        pr = core.load_pair(d, vs[0])
        what = sorted({v["what"] for v in vs})
        path = core.write_replay(pid, name, {"kind": name, "property": pid, "what": pr["what"], "differs": what})
        info = {k: v for k, v in pr["what"].items() if k != "cfg"}
        out["violations"].append(("%s %s: %s differ (first difference at event %d)" % (
            label, json.dumps(info), ",".join(what), min(v["at"] for v in vs)), path))
    tv = res.get("trace_verdicts") or []
    mine = [v for v in tv if v["kind"] == "L1" and (v["what"].startswith(pid + ".") or v["what"].startswith("C13."))]
    for v in mine[:10]:
        path = core.write_replay(pid, name + "_l1", {"kind": "note", "property": pid, "verdict": v})
        out["violations"].append(("clause %s fails in an interrupted execution at event %d" % (v["what"], v["l"]), path))
    fams, invs, props = mc
    _mc_simple(pid, fams if tier == "quick" else fams, invs, props, out)
    out["samples"] += res["what"][:3]
    cov = {"states": max(out["states"], 1), "transitions": max(out["transitions"], 1),
           "traces_validated_against_impl": res["npairs"] + res.get("ntraces", 0),
           "samples": out["samples"], "pairs_compared": res["npairs"],
           "events_compared": res["events"],
           "interrupted_trace_events_validated": res.get("trace_steps", 0),
           "exhaustive": False,
           "checker_cmd": "tlc TraceEq on pair files; tlc TraceSim on interrupted traces; tlc MC_Sim families %s" % ",".join(fams)}
    M.finish(pid, tier, out, cov, time.time() - t0, ASSUME_PAIR)


def check_c11(pid, tier):
    from harness import pairs
    check_pairs(pid, tier, "segpairs", lambda t, s: pairs.seg_pairs(t, s, core.NCPU), "pause/resume",
                (["S"], ["I_C13_end", "I_C13_nodup", "I_End"], ["A_C11"]))


def check_c10(pid, tier):
    from harness import pairs
    check_pairs(pid, tier, "hashpairs", lambda t, s: (pairs.hash_pairs(t, s, core.NCPU), []), "hash seeds",
                (["A", "W", "G"], ["I_C10_det"], []))


PURE_RE = __import__("re").compile(r'^<<"(PURE|PUREDONE)", (.*)>>$')


def pure_batch(tier):
    """records of the real pure functions judged by TLC (spec/Pure.tla)"""
    import fcntl
    import shutil
    key = core.tree_key("pure", tier, core.seed())
    d = os.path.join(core.CACHE, key)
    os.makedirs(core.CACHE, exist_ok=True)
    lock = open(os.path.join(core.CACHE, key + ".lock"), "w")
    fcntl.flock(lock, fcntl.LOCK_EX)
    try:
        done = os.path.join(d, "verdicts.json")
        if os.path.exists(done):
            return json.load(open(done)), d
        shutil.rmtree(d, ignore_errors=True)
        os.makedirs(d)
        if core.VERIF not in sys.path:
            sys.path.insert(0, core.VERIF)
        from harness import pure
        data = pure.build(tier, core.seed())
        pth = os.path.join(d, "pure.json")
        json.dump(data, open(pth, "w"))
        r = core.run_tlc("Pure", "SPECIFICATION PSpec\nCHECK_DEADLOCK FALSE\n", workers=1,
                         env={"TRACE_FILE": pth}, heap="6g", serial_gc=True)
        if core.tlc_failed(r["out"]) or "PUREDONE" not in r["out"]:
            raise MachineryError("TLC failed on Pure:\n" + r["out"][-3000:])
        verdicts = []
        for line in r["out"].splitlines():
            m = PURE_RE.match(line.strip())
            if m and m.group(1) == "PURE":
                what, k = m.group(2).split(", ")
                verdicts.append({"what": what.strip('"'), "i": int(k)})
        res = {"verdicts": verdicts, "counts": {k: len(v) for k, v in data.items() if isinstance(v, list)}}
        json.dump(res, open(done, "w"))
        return res, d
    finally:
        fcntl.flock(lock, fcntl.LOCK_UN)
        lock.close()


PURE_KEY = {"C14": "plan", "C16": "config", "C15": "delay", "C06": "runtime"}


def pure_part(pid, tier, out):
    res, d = pure_batch(tier)
    key = PURE_KEY[pid]
    data = None
    mine = [v for v in res["verdicts"] if v["what"].startswith(pid)]
    for v in mine[:15]:
        if data is None:
            data = json.load(open(os.path.join(d, "pure.json")))
        k2 = "unitrun" if v["what"] == "C16-run" else key
        rec = data[k2][v["i"] - 1] if v["i"] > 0 else {"coverage": "the records do not cover the enumerated input space"}
        path = core.write_replay(pid, "pure", {"kind": "pure", "property": pid, "which": k2, "record": rec})
        out["violations"].append(("%s record %d violates the contract of spec/Pure.tla: %s" % (
            k2, v["i"], json.dumps(rec.get("x", rec))[:300]), path))
    n = res["counts"][key] + (res["counts"].get("unitrun", 0) if pid == "C16" else 0)
    out["extra_traces"] = out.get("extra_traces", 0) + n
    ec = out.setdefault("extra_cov", {})
    ec["pure_function_records_judged"] = n
    if data is None:
        data = json.load(open(os.path.join(d, "pure.json")))
    out["samples"].append({"pure_record": data[key][min(5, n - 1)]})


def check_pure(pid, tier):
    from . import main as M
    t0 = time.time()
    out = {"violations": [], "known": [], "states": 0, "transitions": 0, "samples": []}
    pure_part(pid, tier, out)
    n = out["extra_cov"]["pure_function_records_judged"]
    cov = {"states": n, "transitions": n, "traces_validated_against_impl": n, "samples": out["samples"],
           "exhaustive": True,
           "rule": "every input of the enumerated input space of spec/Pure.tla is executed through the real function and the (input, output) record judged by TLC; TLC also checks that the records cover the enumerated space",
           "checker_cmd": "tlc Pure (TRACE_FILE = records of the real functions)"}
    cov.update(out["extra_cov"])
    M.finish(pid, tier, out, cov, time.time() - t0,
             ["TLC is the oracle for the input/output contract; the harness only transports values (integrality is verified, not rounded)",
              "states/transitions count judged records (one TLC evaluation each), not a state graph"])


BUF_INVS = {
    "C18": (["I_bounds", "I_conserved", "I_noraise", "I_progress"], ["A_step", "A_done", "A_refused", "A_tick"]),
    "C07": (["I_bounds", "I_conserved"], []),
}


def buf_part(pid, tier, out):
    """buffer tier moves as a component: TLC explores spec/MC_Buffer.tla; real
    move histories on a real Buffer are validated event by event"""
    invs, props = BUF_INVS[pid]
    depth = 10 if tier == "quick" else 14
    cfg = "SPECIFICATION BSpec\nCONSTANT MaxDepth = %d\n" % depth
    cfg += "".join("INVARIANT %s\n" % i for i in invs) + "".join("PROPERTY %s\n" % p for p in props)
    cfg += "CHECK_DEADLOCK FALSE\n"
    r = core.run_tlc("MC_Buffer", cfg, heap="12g")
    if core.tlc_failed(r["out"]):
        raise MachineryError("TLC failed on MC_Buffer:\n" + r["out"][-3000:])
    v = core.tlc_violation(r["out"])
    out["states"] += r.get("states", 0)
    out["transitions"] += r.get("transitions", 0)
    out["samples"].append({"mc": "MC_Buffer", "max_depth": depth, "invariants": invs, "properties": props,
                           "states": r.get("states", 0), "violated": v, "wall_s": round(r["wall"], 1)})
    if v:
        i = r["out"].find("Error:")
        path = core.write_replay(pid, "mc_buf", {"kind": "mc", "family": "Buffer", "violated": v,
                                                  "tlc": r["out"][i:i + 20000]})
        out["violations"].append(("design-level: %s violated for buffer tier moves" % v, path))
    batch, bdir = core.trace_batch("bufapibatch", tier)
    prefixes = (pid + ".",) if pid != "C18" else ("C18.", "C07.")
    mine = [x for x in batch["verdicts"] if x["kind"] == "L1" and x["what"].startswith(prefixes)]
    by_gid = {}
    for x in mine:
        by_gid.setdefault(x["gid"], []).append(x)
    for gid, vs in sorted(by_gid.items())[:20]:
        tr = core.load_trace(bdir, batch["meta"][gid])
        clauses = sorted({x["what"] for x in vs})
        c = tr["cfg"]
        path = core.write_replay(pid, "bufapi", {"kind": "bufapi", "property": pid, "clauses": clauses,
                                                 "cfg": c, "ops": tr["ops"]})
        out["violations"].append(("buffer history hot=%s/%s cold=%s/%s sizes=%s ops=%s: clauses %s" % (
            c["hotCap"], c["hotRate"], c["coldCap"], c["coldRate"], [o["dur"] for o in c["obs"]],
            [o["op"] for o in tr["ops"]][:8], ",".join(clauses)), path))
    drift = [x for x in batch["verdicts"] if x["kind"] == "DRIFT"]
    out["extra_traces"] = out.get("extra_traces", 0) + batch["ntraces"]
    ec = out.setdefault("extra_cov", {})
    ec["buffer_histories_executed"] = batch["ntraces"]
    ec["buffer_history_events_validated"] = batch["steps"]
    ec["buffer_history_l2_drift"] = len(drift)
    if drift:
        print("DRIFT(buffer): %d events of buffer histories are not steps of the specification; first %s"
              % (len(drift), json.dumps(drift[0])))
    return batch


def check_c18(pid, tier):
    from . import main as M
    t0 = time.time()
    out = {"violations": [], "known": [], "states": 0, "transitions": 0, "samples": []}
    batch = buf_part(pid, tier, out)
    out["samples"] += [{"trace": m} for m in batch["meta"][:2]]
    cov = {"states": max(out["states"], 1), "transitions": max(out["transitions"], 1),
           "traces_validated_against_impl": batch["ntraces"], "samples": out["samples"], "exhaustive": False,
           "checker_cmd": "tlc MC_Buffer ; tlc TraceSim on buffer-move histories of a real Buffer"}
    cov.update(out["extra_cov"])
    M.finish(pid, tier, out, cov, time.time() - t0,
             ["one move at a time (the buffer has one transfer slot per tier); concurrent moves only occur in the tiering regime recorded as known finding",
              "TLC and the harness projection are trusted"])


# C18: simulation traces (moves inside whole simulations) + the buffer component
EXTRA.setdefault("C18", []).append(buf_part)
EXTRA.setdefault("C07", []).append(buf_part)
CHECKS["C14"] = check_pure
CHECKS["C16"] = check_pure
EXTRA.setdefault("C15", []).append(pure_part)
EXTRA.setdefault("C06", []).append(pure_part)
CHECKS["C10"] = check_c10
CHECKS["C11"] = check_c11


def replay(rp, path):
    if rp["kind"] == "api":
        sys.path.insert(0, core.VERIF)
        from harness import api_cluster as A
        tr = A.run_history(A.api_cfg(), rp["ops"])
        sd = core.scratch()
        import shutil
        try:
            p = os.path.join(sd, "shard_00.json")
            with open(p, "w") as f:
                json.dump({"traces": [tr], "gids": [0]}, f)
            r = core.validate_shard(p)
        finally:
            shutil.rmtree(sd, ignore_errors=True)
        vs = [v for v in core.parse_verdicts(r["out"]) if v["kind"] == "L1"]
        for v in vs:
            print("clause %s fails at step %d" % (v["what"], v["l"]))
        if any(v["what"] in rp["clauses"] for v in vs):
            print("VIOLATION property=%s replay=%s" % (rp["property"], path))
            return 1
        print("not reproduced on the current tree")
        return 0
    if rp["kind"] in ("segpairs", "hashpairs"):
        sys.path.insert(0, core.VERIF)
        from harness import pairs, runsim, batch
        cfg = rp["what"]["cfg"]
        if rp["kind"] == "segpairs":
            if rp["what"]["segs"] == "refusals":
                pr = {"a": pairs.canon(runsim.run(cfg)), "refusals": pairs.refusal_probe(cfg)}
                pr["b"] = pr["a"]
            else:
                pr = {"a": pairs.canon(runsim.run(cfg)), "b": pairs.canon(runsim.run(cfg, segs=rp["what"]["segs"])),
                      "refusals": []}
        else:
            import subprocess, tempfile, shutil
            wd = tempfile.mkdtemp(prefix="topsim_hash_")
            try:
                cp = os.path.join(wd, "cfg.json")
                json.dump(cfg, open(cp, "w"))
                outs = []
                for hs in (0, rp["what"]["hashseed"] if isinstance(rp["what"]["hashseed"], int) else 1):
                    env = dict(os.environ, PYTHONHASHSEED=str(hs))
                    op = os.path.join(wd, f"o{hs}.json")
                    subprocess.run([sys.executable, "-m", "harness.pairs", cp, op], cwd=core.VERIF, env=env, check=True,
                                   stdout=subprocess.PIPE, stderr=subprocess.PIPE)
                    outs.append(json.load(open(op)))
                pr = {"a": outs[0], "b": outs[1], "refusals": []}
            finally:
                shutil.rmtree(wd, ignore_errors=True)
        pr["what"] = {}
        sd = core.scratch()
        import shutil as _sh
        try:
            p = os.path.join(sd, "pairs.json")
            json.dump({"pairs": [pr]}, open(p, "w"))
            res, dn = core.validate_pairs(p)
        finally:
            _sh.rmtree(sd, ignore_errors=True)
        for v in res:
            print("differs:", v["what"], "first at", v["at"])
        if res:
            print("VIOLATION property=%s replay=%s" % (rp["property"], path))
            return 1
        print("not reproduced on the current tree")
        return 0
    if rp["kind"] == "bufapi":
        sys.path.insert(0, core.VERIF)
        from harness import api_buffer as B
        import shutil
        tr = B.run_history((rp["cfg"], rp["ops"]))
        sd = core.scratch()
        try:
            p = os.path.join(sd, "shard_00.json")
            json.dump({"traces": [tr], "gids": [0]}, open(p, "w"))
            r = core.validate_shard(p)
        finally:
            shutil.rmtree(sd, ignore_errors=True)
        vs = [v for v in core.parse_verdicts(r["out"]) if v["kind"] == "L1"]
        for v in vs:
            print("clause %s fails at step %d" % (v["what"], v["l"]))
        if any(v["what"] in rp["clauses"] for v in vs):
            print("VIOLATION property=%s replay=%s" % (rp["property"], path))
            return 1
        print("not reproduced on the current tree")
        return 0
    if rp["kind"] == "pure":
        sys.path.insert(0, core.VERIF)
        from harness import pure
        import tempfile, shutil
        wd = tempfile.mkdtemp(prefix="topsim_p_")
        data = {"plan": [], "config": [], "delay": [], "runtime": [], "unitrun": [], "exhaustive": False}
        try:
            rec = rp["record"]
            import contextlib, io
            _quiet = contextlib.ExitStack()
            _quiet.enter_context(contextlib.redirect_stdout(io.StringIO()))
            _quiet.enter_context(contextlib.redirect_stderr(io.StringIO()))
            if rp["which"] == "plan":
                data["plan"] = [pure.run_plan(rec["x"], wd)]
            elif rp["which"] == "config":
                data["config"] = [pure.run_config(rec["x"], wd)]
            elif rp["which"] == "unitrun":
                data["unitrun"] = [pure.run_unit_sim(rec["x"], wd)]
            else:
                full = pure.build("quick", 0, which=(rp["which"],))
                data[rp["which"]] = full[rp["which"]]
            _quiet.close()
            p = os.path.join(wd, "pure.json")
            json.dump(data, open(p, "w"))
            r = core.run_tlc("Pure", "SPECIFICATION PSpec\nCHECK_DEADLOCK FALSE\n", workers=1,
                             env={"TRACE_FILE": p}, heap="4g", serial_gc=True)
        finally:
            shutil.rmtree(wd, ignore_errors=True)
        bad = [l for l in r["out"].splitlines() if l.startswith('<<"PURE", "' + rp["property"])]
        for l in bad[:10]:
            print(l)
        if bad:
            print("VIOLATION property=%s replay=%s" % (rp["property"], path))
            return 1
        print("not reproduced on the current tree")
        return 0
    if rp.get("kind") == "note":
        print("this record only describes the failing clause:", json.dumps(rp.get("verdict")))
        print("VIOLATION property=%s replay=%s" % (rp.get("property"), path))
        return 1
    print("unknown replay kind", rp.get("kind"))
    return 2
