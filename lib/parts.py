"""Property-specific parts: component replays, pure-function vectors,
reproducibility and pause/resume drivers."""
import json
import os
import sys
import time

from . import core
from .core import MachineryError

CHECKS = {}
EXTRA = {}

API_INVS = {
    "C01": (["I_exec", "I_claim", "I_pool"], ["A_noreclaim"]),
    "C02": (["I_partition", "I_counts", "I_numprov"], ["A_refusedSync"]),
    "C09": (["I_partition"], ["A_reserved"]),
    "C19": (["I_idle"], []),
}


def api_part(pid, tier, out):
    """Cluster operation histories: TLC explores every operation sequence of
    spec/ClusterAPI.tla up to a depth bound; real histories executed on a
    real Cluster are validated event by event against the same spec."""
    invs, props = API_INVS[pid]
    depth = 6 if tier == "quick" else 8
    cfg = "SPECIFICATION ASpec\nCONSTANT MaxDepth = %d\n" % depth
    cfg += "".join("INVARIANT %s\n" % i for i in invs) + "".join("PROPERTY %s\n" % p for p in props)
    cfg += "CHECK_DEADLOCK FALSE\n"
    r = core.run_tlc("MC_ClusterAPI", cfg, heap="12g")
    if core.tlc_failed(r["out"]):
        raise MachineryError("TLC failed on MC_ClusterAPI:\n" + r["out"][-3000:])
    v = core.tlc_violation(r["out"])
    out["states"] += r.get("states", 0)
    out["transitions"] += r.get("transitions", 0)
    out["samples"].append({"mc": "MC_ClusterAPI", "max_depth": depth, "invariants": invs, "properties": props,
                           "states": r.get("states", 0), "violated": v, "wall_s": round(r["wall"], 1)})
    if v:
        i = r["out"].find("Error:")
        path = core.write_replay(pid, "mc_api", {"kind": "mc", "family": "ClusterAPI", "violated": v,
                                                  "tlc": r["out"][i:i + 20000]})
        out["violations"].append(("design-level: %s violated for Cluster operation histories" % v, path))
    batch, bdir = core.trace_batch("apibatch", tier)
    prefix = pid + "."
    mine = [x for x in batch["verdicts"] if x["kind"] == "L1" and x["what"].startswith(prefix)]
    by_gid = {}
    for x in mine:
        by_gid.setdefault(x["gid"], []).append(x)
    for gid, vs in sorted(by_gid.items())[:20]:
        tr = core.load_trace(bdir, batch["meta"][gid])
        clauses = sorted({x["what"] for x in vs})
        path = core.write_replay(pid, "api", {"kind": "api", "property": pid, "clauses": clauses,
                                              "ops": tr["ops"], "first_step": min(x["l"] for x in vs)})
        out["violations"].append(("Cluster history %s: clauses %s" % (json.dumps(tr["ops"])[:200], ",".join(clauses)), path))
    drift = [x for x in batch["verdicts"] if x["kind"] == "DRIFT"]
    out["extra_traces"] = out.get("extra_traces", 0) + batch["ntraces"]
    ec = out.setdefault("extra_cov", {})
    ec["cluster_histories_executed"] = batch["ntraces"]
    ec["cluster_history_events_validated"] = batch["steps"]
    ec["cluster_history_l2_drift"] = len(drift)
    if drift:
        print("DRIFT(api): %d events of Cluster histories are not steps of spec/ClusterAPI; first %s"
              % (len(drift), json.dumps(drift[0])))


for _p in API_INVS:
    EXTRA.setdefault(_p, []).append(api_part)


def replay(rp, path):
    if rp["kind"] == "api":
        sys.path.insert(0, core.VERIF)
        from harness import api_cluster as A
        tr = A.run_history(A.api_cfg(), rp["ops"])
        sd = core.scratch()
        import shutil
        try:
            p = os.path.join(sd, "shard_00.json")
            with open(p, "w") as f:
                json.dump({"traces": [tr], "gids": [0]}, f)
            r = core.validate_shard(p)
        finally:
            shutil.rmtree(sd, ignore_errors=True)
        vs = [v for v in core.parse_verdicts(r["out"]) if v["kind"] == "L1"]
        for v in vs:
            print("clause %s fails at step %d" % (v["what"], v["l"]))
        if any(v["what"] in rp["clauses"] for v in vs):
            print("VIOLATION property=%s replay=%s" % (rp["property"], path))
            return 1
        print("not reproduced on the current tree")
        return 0
    print("unknown replay kind", rp.get("kind"))
    return 2
