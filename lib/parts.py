"""Property-specific parts: component replays, pure-function vectors,
reproducibility and pause/resume drivers."""
CHECKS = {}
EXTRA = {}
