"""python -m lib.scan [--tier quick]: runs every code-dependent part of every
check once (shared batches) and prints, per property, the clauses / comparisons
that fail.  Used to record which checks catch which seeded change."""
import argparse
import collections
import json
import sys
import time

from . import core, parts


def main():
    ap = argparse.ArgumentParser()
    ap.add_argument("--tier", default="quick")
    ap.add_argument("--json", default="")
    a = ap.parse_args()
    if core.VERIF not in sys.path:
        sys.path.insert(0, core.VERIF)
    from harness import pairs
    t0 = time.time()
    res = collections.defaultdict(lambda: collections.Counter())
    drift = collections.Counter()
    errors = []

    def guard(name, f):
        try:
            f()
        except core.MachineryError as e:
            errors.append((name, str(e)[:400]))
        except Exception as e:  # noqa
            errors.append((name, repr(e)[:400]))

    from . import main as M
    kfs = [k for k in core.known_findings() if k.get("kind") == "known"]
    kf_clauses = {c for k in kfs for c in k.get("signature", {}).get("clauses", [])}

    def traces(name):
        b, d = core.trace_batch(name, a.tier)
        cache = {}
        for v in b["verdicts"]:
            if v["kind"] == "L1":
                if v["what"] in kf_clauses:
                    # listed known finding? (same signature predicates as the checks)
                    key = (v["gid"], v["what"])
                    if key not in cache:
                        tr = core.load_trace(d, b["meta"][v["gid"]])
                        pid = v["what"].split(".")[0]
                        cache[key] = M.match_known([k for k in kfs if k["property"] == pid], tr, [v["what"]]) is not None
                    if cache[key]:
                        continue
                res[v["what"].split(".")[0]][name + ":" + v["what"]] += 1
            elif v["kind"] in ("DRIFT", "PROPOSAL"):
                drift[name + ":" + v["what"][:40]] += 1
    for n in ("simbatch", "apibatch", "bufapibatch"):
        guard(n, lambda n=n: traces(n))

    def pure_():
        r, d = parts.pure_batch(a.tier)
        for v in r["verdicts"]:
            res[v["what"][:3]]["pure:" + v["what"]] += 1
    guard("pure", pure_)

    def seg():
        r, d = core.pair_batch("segpairs", a.tier, lambda t, s: pairs.seg_pairs(t, s, core.NCPU))
        for v in r["verdicts"]:
            res["C11"]["segpairs:" + v["what"]] += 1
        for v in r.get("trace_verdicts") or []:
            if v["kind"] == "L1":
                res[v["what"].split(".")[0]]["segtraces:" + v["what"]] += 1
            elif v["kind"] in ("DRIFT", "PROPOSAL"):
                drift["segtraces:" + v["what"][:40]] += 1
    guard("segpairs", seg)

    def hsh():
        r, d = core.pair_batch("hashpairs", a.tier, lambda t, s: (pairs.hash_pairs(t, s, core.NCPU), []))
        for v in r["verdicts"]:
            res["C10"]["hashpairs:" + v["what"]] += 1
    guard("hashpairs", hsh)
    out = {"caught_by": {p: dict(c) for p, c in sorted(res.items())}, "drift": dict(drift),
           "machinery_errors": errors, "wall_s": round(time.time() - t0, 1)}
    print(json.dumps(out, indent=1))
    if a.json:
        json.dump(out, open(a.json, "w"), indent=1)


if __name__ == "__main__":
    main()
