"""regenerates MANIFEST.json from the table below (kept in one place so the
manifest is always valid and consistent with the checks that exist)"""
import json
import os

VERIF = os.path.dirname(os.path.dirname(os.path.abspath(__file__)))

CLAIMED = {
    # id: (text, technique, design_ref)
}


def sim(text, extra=""):
    return (text, "TLC model checking of spec/MC_Sim.tla families + TLC trace validation (spec/TraceSim.tla) of real executions" + extra, "DESIGN.md section 6")


CLAIMED.update({
    "C01": sim("Exhaustive TLC exploration of the simulator specification on small configuration families (incl. adversarial proposals and permuted allocation-process orders) with the single-execution invariants, plus event-by-event validation of hundreds of real executions (every shipped policy, a scripted adversary, permuted process orders) against the same specification and the same invariants."),
    "C02": sim("TLC checks the pool partition, counter truth and end-state invariants in every reachable state of the small families; every event of real executions is validated against the spec and the invariants evaluated on the logged pools/counters.", " + TLC exploration of every Cluster operation history (MC_ClusterAPI) + real Cluster histories validated against ClusterAPI.tla + Apalache inductive invariant (ClusterPools.tla)"),
    "C03": sim("Precedence and exact start-time clauses are action properties of the spec (all policies, delays, DAG shapes of the W family) and are evaluated by TLC on every logged start of every real execution."),
    "C04": sim("Status monotonicity / single start as action property, quiescent end state as invariant at `returned`, on all families incl. the adversary; same clauses on complete real runs and their returned tables."),
    "C05": sim("Safety form of termination: no crash and now <= SerialBound(cfg) as invariants over all feasible configurations of the families, cross-checked by the liveness property <>(run # running) under weak fairness; real feasible runs must return within the bound. Two listed known findings (tiering) are reproduced, not reported.", " + TLC liveness under fairness"),
    "C06": sim("aft - ast = max(1, floor runtime) + injected delay as action property on every task end of the spec and of every real execution."),
    "C07": sim("Buffer bounds, conservation, per-step deposit and release amounts (only when the observation's own workflow completed), rejection of over-rate ingest as invariants/action properties; evaluated after every real event of simulations and of tier-move histories on a real Buffer.", " + MC_Buffer"),
    "C08": sim("Admission preconditions evaluated in the state before the telescope's step, limits, ingest holding interval, status order and on-time start when idle, on the spec and on real traces."),
    "C09": sim("Reservation exclusivity, count, size and release clauses on batch families and on real batch executions."),
    "C12": sim("Monitor row = TrueRow(state at the beginning of the step) and one row per step, in the spec and for every row of every real execution."),
    "C13": sim("History of logged entries in the spec must contain each life-cycle entry exactly once, causally ordered; in real executions every emitted entry must reach the log exactly once (no loss, no duplicate) and the final log must have the stated structure."),
    "C15": sim("Delay flag and DELAYED report clauses with injected per-task delays; DelayModel call records validated by TLC against the call contract."),
    "C17": sim("Claim machine = planned machine for every assignment of tasks to machines (W family: one observation; G family: two observations contending for the planned machines) and on real plan-following executions with a harness static planner."),
    "C19": sim("Query truthfulness as invariant over every reachable spec state and over the five query results logged after every real event."),
})


def comp(text, tech):
    return (text, tech, "DESIGN.md section 6")


CLAIMED.update({
    "C10": comp("The same configuration is executed in separate interpreter processes under different PYTHONHASHSEED values (and twice in-process); TLC (spec/TraceEq.tla) requires the state after every event, the per-timestep table, the task table and the event log to be identical. At design level TLC checks on the A, W and G families that which tasks an allocation round serves is a function of the state.",
                 "TLC equality refinement of paired real executions (TraceEq) + TLC invariant I_C10_det on MC_Sim"),
    "C11": comp("The specification contains start(k)/resume(u) as explicit pause/resume steps; TLC checks on the S family that they are invisible (core state and effective log unchanged) and that the log is complete and duplicate-free whatever the pause points. Real executions interrupted at every k (and random multi-splits) must coincide event by event and in all outputs with the uninterrupted execution (TraceEq), each interrupted trace is validated against the specification, and refused calls must raise and change nothing.",
                 "TLC action property A_C11 on MC_Sim family S + TLC equality refinement of paired real executions (TraceEq) + trace validation of interrupted runs"),
    "C14": comp("TLC enumerates every DAG on up to 4 ordered nodes (labels increasing or decreasing along the edges, zero-volume edges, whole and fractional demands) x data-attribute variants x names/clocks, plus shared-planner and same-name replanning variants; each is run through the real Planner/BatchPlanning and the (input, plan) record judged by TLC against PlanOK; TLC also checks that the records cover the whole enumerated input space. Random larger DAGs are added.",
                 "TLC as oracle over an enumerated input space (spec/Pure.tla: PlanOK), weakest use of the technique (pure function)"),
    "C16": comp("Every unit spelling x custom factor x value combination of the enumerated space is written as a JSON configuration, parsed (twice) by the three real Config.parse_* methods and judged by TLC against ConfigOK (same multiplier in all three sections, capacities/counts untouched, unit-independent volume, a real-time cold rate left a marker). In addition whole simulations of one physical system are run in four timestep units x three workflow-header spellings x four workflows and TLC (UnitRunOK) requires task runtimes, transfer waits, ingest time and data volume measured in seconds to be what the physical description says.",
                 "TLC as oracle over an enumerated input space (spec/Pure.tla: ConfigOK), weakest use of the technique (pure function)"),
    "C18": comp("TLC explores every tier-move history of spec/MC_Buffer.tla (sizes 1..6, rates 1..3 on each side and a `real time` cold tier, capacities, both directions, round trips) with conservation, rate, completion, single-residence and refusal clauses; the same histories executed on a real Buffer, and the moves that occur inside whole simulations (tiering configurations), are validated event by event against the specification and the clauses.",
                 "TLC model checking of MC_Buffer + TLC trace validation of real Buffer move histories and of whole simulations"),
})


def build():
    props = [json.loads(l) for l in open(os.path.join(VERIF, "properties.jsonl"))]
    checks, na = [], []
    for p in props:
        pid = p["id"]
        if pid in CLAIMED:
            text, tech, ref = CLAIMED[pid]
            checks.append({
                "property_id": pid,
                "quick_cmd": f"./check {pid} --tier quick",
                "thorough_cmd": f"./check {pid} --tier thorough",
                "evidence_file": f"evidence/{pid}.json",
                "replay_cmd_template": "./check replay {path}",
                "engine": "tlc",
                "level_claimed": {"category": "model_checking", "text": text, "design_ref": ref},
                "level_note": "TLC and CommunityModules trusted; harness projection of the live Simulation trusted; bounded families; SHADOW replaced by a harness static planner",
                "technique": tech,
            })
        else:
            na.append({"property_id": pid, "reason": "check under construction (DESIGN.md section 10); not claimed yet"})
    m = {
        "version": 1,
        "setup_cmd": "./setup.sh",
        "hooks": {"guard": "TOPSIM_VERIF",
                  "enable": "no source hooks exist: the harness injects through constructor parameters (env, planning model, scheduling algorithm) and a simpy.Environment subclass; the guard name is unused by the sources",
                  "baseline_off_cmd": "cd /repo && /venv/bin/python -m pytest -ra -q -p no:cacheprovider --timeout=900 --continue-on-collection-errors",
                  "source_commits": [], "add_only": True},
        "engines": [{"name": "tlc", "path": "spec/", "serves_properties": sorted(CLAIMED),
                     "kind_free_text": "explicit TLA+ specification checked with TLC; conformance by trace validation and replay"}],
        "checks": checks,
        "not_applicable": na,
        "notes": "see DESIGN.md; known findings in KNOWN_FINDINGS.jsonl",
    }
    if not na:
        m.pop("not_applicable")
    with open(os.path.join(VERIF, "MANIFEST.json"), "w") as f:
        json.dump(m, f, indent=1)


if __name__ == "__main__":
    build()
