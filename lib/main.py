"""./check <ID> [--tier quick|thorough]   |   ./check replay <path>

Exit 0: the property held on everything explored (KNOWN-FINDING lines
allowed); exit 1 + `VIOLATION property=<id> replay=<path>`; exit 2: the
machinery itself failed."""
import argparse
import json
import os
import sys
import time
import traceback

from . import core
from .core import MachineryError


def tier_of(args):
    return args.tier or os.environ.get("VERIF_TIER") or "quick"


# --------------------------------------------------------------------------
# model-checking instances of spec/MC_Sim.tla

FAMILY_TIERS = {"quick": ["A", "W", "B", "V", "D", "G"], "thorough": ["A", "W", "B", "V", "D", "G", "P", "A3"]}

# property -> (invariants, action properties, families, needs no crash?)
MC_PROPS = {
    "C01": (["I_C01_exec", "I_C01_claim", "I_C01_pool"], ["A_C01"], ["A", "W", "V", "P", "A3", "G"]),
    "C02": (["I_C02_partition", "I_C02_counts", "I_C02_numprov", "I_End"], ["A_C02"], ["A", "W", "V", "P", "A3", "G"]),
    "C03": ([], ["A_C03"], ["A", "W", "D", "P", "A3", "G"]),
    "C04": (["I_End"], ["A_C04"], ["A", "W", "D", "V", "P", "A3", "G"]),
    "C05": (["I_C05_bound", "I_C05_nocrash"], [], ["A", "W", "B", "P", "A3", "G"]),
    "C06": ([], ["A_C06"], ["W", "A", "D"]),
    "C07": (["I_C07_bounds", "I_C07_conserved", "I_End"], ["A_C07"], ["A", "B", "W", "A3"]),
    "C08": (["I_C08_limits"], ["A_C08", "A_C08b", "A_C08c"], ["A", "B", "P", "A3", "G"]),
    "C09": (["I_C09_count", "I_C09_prompt"], ["A_C09"], ["A", "P", "A3", "G"]),
    "C12": (["I_End"], ["A_C12"], ["A", "W", "B", "A3", "G"]),
    "C13": (["I_C13_end", "I_C13_nodup"], [], ["A", "B", "P", "A3", "G"]),
    "C15": (["I_C15_reported"], ["A_C15"], ["W"]),
    "C17": ([], ["A_C17"], ["W", "G"]),
    "C19": (["I_C19_truth"], [], ["A", "W", "B", "V", "A3", "G"]),
}


def mc_cfg(family, invs, props, deadlock=False):
    t = "SPECIFICATION Spec\nCONSTANT Configs <- MCConfigs\nCONSTANT FamilyName = \"%s\"\n" % family
    for i in invs:
        t += "INVARIANT %s\n" % i
    for p in props:
        t += "PROPERTY %s\n" % p
    t += "CHECK_DEADLOCK FALSE\n"
    return t


def run_mc(pid, tier, out):
    invs, props, fams = MC_PROPS[pid]
    fams = [f for f in FAMILY_TIERS[tier] if f in fams]
    states = trans = 0
    samples = []
    for fam in fams:
        r = core.run_tlc("MC_Sim", mc_cfg(fam, invs, props), extra_args=["-coverage", "1"], heap="12g")
        if core.tlc_failed(r["out"]):
            raise MachineryError("TLC failed on MC_Sim family %s:\n%s" % (fam, r["out"][-3000:]))
        v = core.tlc_violation(r["out"])
        cov = core.coverage_counts(r["out"])
        taken = {a: c for a, c in cov.items() if a in ("Resume", "StopStep", "Surface")}
        states += r.get("states", 0)
        trans += r.get("transitions", 0)
        samples.append({"mc_family": fam, "invariants": invs, "properties": props,
                        "states": r.get("states", 0), "depth": r["depth"], "violated": v,
                        "wall_s": round(r["wall"], 1)})
        if v:
            i = r["out"].find("Error:")
            path = core.write_replay(pid, "mc_" + fam, {"kind": "mc", "family": fam, "violated": v,
                                                         "invariants": invs, "properties": props,
                                                         "tlc": r["out"][i:i + 20000]})
            out["violations"].append(("design-level: %s violated in family %s" % (v, fam), path))
        if r.get("states", 0) < 100:
            raise MachineryError("vacuous model-checking run (family %s: %s states)" % (fam, r.get("states")))
    if pid == "C05":
        # cross-check of the safety form: termination as a liveness property
        # under weak fairness, no state constraint
        for fam in (["B", "W"] if tier == "quick" else ["B", "W", "A", "G"]):
            cfgt = ("SPECIFICATION FairSpec\nCONSTANT Configs <- MCConfigs\nCONSTANT FamilyName = \"%s\"\n"
                    "PROPERTY Terminates\nCHECK_DEADLOCK FALSE\n" % fam)
            r = core.run_tlc("MC_Sim", cfgt, heap="12g", workers=8)
            if core.tlc_failed(r["out"]):
                raise MachineryError("TLC failed on liveness of family %s:\n%s" % (fam, r["out"][-3000:]))
            v = core.tlc_violation(r["out"])
            samples.append({"mc_family": fam, "liveness": "<>(run # running) under WF(Next)",
                            "states": r.get("states", 0), "violated": v, "wall_s": round(r["wall"], 1)})
            if v:
                i = r["out"].find("Error:")
                path = core.write_replay(pid, "live_" + fam, {"kind": "mc", "family": fam, "violated": "Terminates",
                                                               "tlc": r["out"][i:i + 20000]})
                out["violations"].append(("design-level: termination violated in family %s" % fam, path))
    # design-level reproduction of the listed known findings (expected failures)
    for kf in [k for k in core.known_findings() if k.get("kind") == "known" and k["property"] == pid]:
        inv, fam, what = {"C07": ("I_C07_bounds", "BX", "overlapping ingests"),
                          "C05": ("I_C05_bound", "TX", "an observation above 60% of the hot buffer")}.get(pid, (None, None, None))
        if not inv:
            continue
        r = core.run_tlc("MC_Sim", mc_cfg(fam, [inv], []), heap="6g")
        if core.tlc_failed(r["out"]):
            raise MachineryError("TLC failed on MC_Sim family %s:\n%s" % (fam, r["out"][-3000:]))
        v = core.tlc_violation(r["out"])
        samples.append({"mc_family": "%s (%s, expected failure)" % (fam, what), "known_finding": kf["id"],
                        "invariant": inv, "reproduced_at_design_level": bool(v)})
    out["states"] += states
    out["transitions"] += trans
    out["samples"] += samples
    out["mc_families"] = fams


# --------------------------------------------------------------------------
# simulation-level properties: shared trace batch + model checking

def sim_property(pid, tier, prefixes, note, extra_parts=()):
    t0 = time.time()
    out = {"violations": [], "known": [], "states": 0, "transitions": 0, "samples": []}
    batch, bdir = core.sim_batch(tier)
    meta = batch["meta"]
    mine = [v for v in batch["verdicts"] if v["kind"] == "L1" and any(v["what"].startswith(p) for p in prefixes)]
    by_gid = {}
    for v in mine:
        by_gid.setdefault(v["gid"], []).append(v)
    kfs = [k for k in core.known_findings() if k.get("kind") == "known" and k["property"] == pid]
    for gid, vs in sorted(by_gid.items()):
        tr = core.load_trace(bdir, meta[gid])
        first = min(vs, key=lambda v: v["l"])
        clauses = sorted({v["what"] for v in vs})
        kf = match_known(kfs, tr, clauses)
        if kf:
            out["known"].append((kf, gid))
            continue
        path = core.write_replay(pid, "trace", {"kind": "trace", "property": pid, "clauses": clauses,
                                                 "first_step": first["l"], "cfg": tr["cfg"],
                                                 "segs": tr["segs"], "perm": tr["perm"], "tag": tr["tag"]})
        out["violations"].append(("clauses %s first at event %d of trace %d (%s/%s)" % (
            ",".join(clauses), first["l"], gid, tr["tag"], tr["cfg"]["alg"]), path))
    drift = [v for v in batch["verdicts"] if v["kind"] in ("DRIFT", "PROPOSAL")]
    if pid in MC_PROPS:
        run_mc(pid, tier, out)
    for part in extra_parts:
        part(pid, tier, out)
    # a few executions written out (configuration + the first events TLC judged)
    for m in meta[:2] + [x for x in meta if x["tag"] not in ("main",)][:2]:
        try:
            tr = core.load_trace(bdir, m)
            c = tr["cfg"]
            out["samples"].append({"trace": m, "cfg": {
                "machines": c["machines"], "alg": c["alg"], "arrays": c["arrays"], "maxIngest": c["maxIngest"],
                "hot": [c["hotCap"], c["hotRate"]], "cold": [c["coldCap"], c["coldRate"]],
                "obs": [{k: o[k] for k in ("o", "est", "dur", "demand", "ing", "rate")} |
                        {"nodes": len(o["wf"]["nodes"]), "edges": len(o["wf"]["edges"])} for o in c["obs"]],
                "delays": c["extra"][:4]},
                "first_events": [[s["t"], s["lab"]["kind"], s["lab"]["o"], s["lab"]["k"]] for s in tr["steps"][:14]]})
        except Exception:  # samples are illustrative only
            out["samples"].append({"trace": m})
    cov = {
        "states": max(out["states"], 1), "transitions": max(out["transitions"], 1),
        "traces_validated_against_impl": batch["ntraces"] + out.get("extra_traces", 0),
        "samples": out["samples"],
        "trace_events_validated": batch["steps"],
        "traces_by_family": count_by(meta, "tag"), "traces_by_algorithm": count_by(meta, "alg"),
        "traces_completed": sum(1 for m in meta if m["completed"]),
        "l1_clauses": prefixes, "l1_failures": len(mine),
        "l2_drift_events": len(drift),
        "order_model_mismatches": sum(1 for v in batch["verdicts"] if v["kind"] == "ORDER"),
        "exhaustive": False,
        "checker_cmd": "tlc MC_Sim (families %s) ; tlc TraceSim on %d shards" % (
            ",".join(out.get("mc_families", [])), core.NCPU),
        "known_findings_reproduced": [k[0]["id"] for k in out["known"]],
    }
    cov.update(out.get("extra_cov", {}))
    finish(pid, tier, out, cov, time.time() - t0, note, drift)


def count_by(meta, key):
    d = {}
    for m in meta:
        d[m[key]] = d.get(m[key], 0) + 1
    return d


def match_known(kfs, tr, clauses):
    """a listed known finding explains these clause failures of this trace;
    the signature predicates are specific (a different violation of the same
    property is still reported)"""
    for k in kfs:
        sig = k.get("signature", {})
        if "clauses" in sig and not set(clauses) <= set(sig["clauses"]):
            continue
        req = sig.get("requires")
        if req == "threshold_crossed_and_stranded" and not stranded_after_crossing(tr):
            continue
        if req == "overlap_overcommit" and not overlap_overcommit(tr):
            continue
        return k
    return None


def _states(tr):
    from harness import runsim
    return runsim.delta_decode(tr["steps"])


def stranded_after_crossing(tr):
    """the hot buffer exceeded its 60% threshold, the run did not end within
    its budget, and at the end an observation sits in the cold tier (or in a
    transfer slot) with its workflow not processed"""
    cap = tr["cfg"]["hotCap"]
    e = tr["end"]
    if e["completed"] or e["exc"]["type"] or not e["budget"]:
        return False
    if not any((cap - st["buf"]["hotFree"]) * 10 > 6 * cap for st in _states(tr)):
        return False
    b = e["st"]["buf"]
    return bool(b["coldStored"] or b["coldTr"] or b["hotTr"])


def overlap_overcommit(tr):
    """free hot space below zero while two observations that were admitted
    with overlapping ingest windows have a joint volume above the capacity"""
    cfg = tr["cfg"]
    cap = cfg["hotCap"]
    K = cfg.get("K", 1)
    last = tr["end"]["st"]
    win = []
    for o in last["obs"]:
        c = next(x for x in cfg["obs"] if x["o"] == o["o"])
        if o["ast"] >= 0:
            win.append((o["ast"], o["ast"] + c["dur"] * K, c["rate"] * c["dur"]))
    over = any(a[0] < b[1] and b[0] < a[1] and a[2] + b[2] > cap
               for i, a in enumerate(win) for b in win[i + 1:])
    return over and any(st["buf"]["hotFree"] < 0 for st in _states(tr))


def finish(pid, tier, out, cov, wall, note, drift=()):
    seen = {}
    for kf, where in out["known"]:
        seen.setdefault(kf["id"], [kf, 0])[1] += 1
    for kid, (kf, n) in sorted(seen.items()):
        print("KNOWN-FINDING: property=%s %s [%s, reproduced %d time(s) in this run]" % (pid, kf["what"], kid, n))
    if drift:
        d0 = drift[0]
        print("DRIFT: %d logged events are not steps of the specification (no property clause failed on them); first: %s"
              % (len(drift), json.dumps(d0)))
    core.write_evidence(pid, tier, "model_checking", cov, wall, len(out["violations"]), note)
    if out["violations"]:
        for what, path in out["violations"]:
            print("VIOLATION property=%s replay=%s  # %s" % (pid, path, what))
        sys.exit(1)
    print("OK %s tier=%s states=%d traces=%d wall=%.1fs" % (
        pid, tier, cov.get("states", 0), cov.get("traces_validated_against_impl", 0), wall))
    sys.exit(0)


ASSUME_SIM = [
    "TLC 1.8 and the CommunityModules are trusted",
    "the harness' projection of a live Simulation onto the specification state (harness/tracer.py) is faithful; the same projection feeds every clause",
    "SHADOW is not installed: static plans come from the harness' StaticPlanning stand-in",
    "exhaustive results hold for the stated small configuration families only; beyond them: seeded random real executions validated event by event",
]

SIM_PROPS = {
    "C01": ["C01."], "C02": ["C02."], "C03": ["C03."], "C04": ["C04."], "C05": ["C05."],
    "C06": ["C06."], "C07": ["C07."], "C08": ["C08."], "C09": ["C09."], "C12": ["C12."],
    "C13": ["C13."], "C15": ["C15."], "C17": ["C17."], "C18": ["C18."], "C19": ["C19."],
}


def main():
    ap = argparse.ArgumentParser()
    ap.add_argument("prop")
    ap.add_argument("path", nargs="?")
    ap.add_argument("--tier", choices=["quick", "thorough"])
    args = ap.parse_args()
    try:
        if args.prop == "replay":
            from . import replay
            sys.exit(replay.run(args.path))
        tier = tier_of(args)
        pid = args.prop
        from . import parts
        if pid in parts.CHECKS:
            parts.CHECKS[pid](pid, tier)
        elif pid in SIM_PROPS:
            sim_property(pid, tier, SIM_PROPS[pid], ASSUME_SIM, parts.EXTRA.get(pid, ()))
        else:
            print("unknown property", pid)
            sys.exit(2)
    except SystemExit:
        raise
    except MachineryError as e:
        print("MACHINERY-ERROR:", e)
        sys.exit(2)
    except BaseException:
        traceback.print_exc()
        sys.exit(2)


if __name__ == "__main__":
    main()
