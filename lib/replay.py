"""./check replay <path>: re-run one recorded violation."""
import json
import os
import sys

from . import core


def run(path):
    with open(path) as f:
        rp = json.load(f)
    if rp["kind"] == "mc":
        print("design-level counterexample (TLC):")
        print(rp["tlc"][:6000])
        return 1
    if rp["kind"] == "trace":
        sys.path.insert(0, core.VERIF)
        from harness import runsim, batch
        cfg = rp["cfg"]
        kw = {}
        if rp.get("perm", -1) != -1:
            kw = {"perm_seed": rp["perm"], "perm_kinds": cfg.get("perm") or None}
        tr = runsim.run(cfg, delta=True, segs=rp.get("segs") or None,
                        budget=batch.serial_bound(cfg) + 5 * cfg.get("K", 1), **kw)
        tr["tag"] = rp.get("tag", "replay")
        sd = core.scratch()
        try:
            p = os.path.join(sd, "shard_00.json")
            with open(p, "w") as f:
                json.dump({"traces": [tr], "gids": [0]}, f)
            r = core.validate_shard(p)
        finally:
            import shutil
            shutil.rmtree(sd, ignore_errors=True)
        vs = [v for v in core.parse_verdicts(r["out"]) if v["kind"] == "L1"]
        mine = [v for v in vs if v["what"] in rp["clauses"]]
        for v in vs:
            print("clause %s fails at event %d" % (v["what"], v["l"]))
        print("end of run:", json.dumps({k: tr["end"][k] for k in ("completed", "budget", "exc", "t")}))
        if mine:
            print("VIOLATION property=%s replay=%s" % (rp["property"], path))
            return 1
        print("not reproduced on the current tree")
        return 0
    from . import parts
    return parts.replay(rp, path)
