#!/venv/bin/python
"""tools/eval_seed.py <patch.diff> <demo.py> <property> <out-dir> [--notes notes.md]
Confirms a seeded change in a scratch worktree (demo passes without / fails
with the change, baseline test results unchanged), then applies it to /repo,
runs the property's quick check and the global scan, undoes it, and writes
<out-dir>/{patch.diff, demo.py, meta.json}."""
import json
import os
import re
import shutil
import subprocess
import sys
import time

REPO = "/repo"
VERIF = "/verif"
PY = "/venv/bin/python"


def sh(cmd, cwd=None, env=None, timeout=3600):
    r = subprocess.run(cmd, cwd=cwd, env=env, shell=isinstance(cmd, str), stdout=subprocess.PIPE,
                       stderr=subprocess.STDOUT, text=True, timeout=timeout)
    return r.returncode, r.stdout


def tests(cwd):
    rc, out = sh(f"{PY} -m pytest -q -p no:cacheprovider --timeout=900 --continue-on-collection-errors -rA 2>&1 | grep -E '^(PASSED|FAILED|ERROR)' | sort", cwd=cwd)
    return out


def main():
    patch, demo, pid, outdir = sys.argv[1:5]
    notes = sys.argv[sys.argv.index("--notes") + 1] if "--notes" in sys.argv else None
    os.makedirs(outdir, exist_ok=True)
    wt = "/tmp/ev_wt_%d" % os.getpid()
    meta = {"property": pid, "confirmed": False, "ran": []}
    sh(f"git -C {REPO} worktree add --detach {wt} HEAD -q")
    try:
        shutil.copy(demo, os.path.join(wt, "demo_seed.py"))
        env = dict(os.environ, PYTHONPATH=wt, PYTHONDONTWRITEBYTECODE="1")
        rc0, o0 = sh(f"{PY} demo_seed.py", cwd=wt, env=env, timeout=600)
        base = tests(wt)
        rc, o = sh(f"git apply {os.path.abspath(patch)}", cwd=wt)
        if rc != 0:
            meta["error"] = "patch does not apply: " + o[-500:]
            return meta
        rc1, o1 = sh(f"{PY} demo_seed.py", cwd=wt, env=env, timeout=600)
        mut = tests(wt)
        meta.update({"demo_clean_rc": rc0, "demo_patched_rc": rc1, "tests_unchanged": base == mut,
                     "demo_patched_tail": o1[-400:], "tests_passed": base.count("PASSED")})
        meta["confirmed"] = rc0 == 0 and rc1 != 0 and base == mut
        meta["ran"] += ["demo on clean worktree", "demo on patched worktree", "baseline tests on both"]
        if meta["confirmed"]:
            # run the checks against the patched scratch worktree (TOPSIM_SRC), /repo is not touched
            env2 = dict(os.environ, TOPSIM_SRC=wt, PYTHONDONTWRITEBYTECODE="1")
            os.remove(os.path.join(wt, "demo_seed.py"))
            t0 = time.time()
            rc, o = sh(f"./check {pid} --tier quick", cwd=VERIF, env=env2, timeout=3600)
            meta["check_rc"] = rc
            meta["check_tail"] = "\n".join(l[:300] for l in o.splitlines()[-6:])
            meta["check_wall_s"] = round(time.time() - t0, 1)
            sj = os.path.join(outdir, "scan.json")
            rc2, o2 = sh(f"{PY} -m lib.scan --tier quick --json {sj}", cwd=VERIF, env=env2, timeout=3600)
            if os.path.exists(sj):
                meta["scan"] = json.load(open(sj))
            meta["ran"] += [f"TOPSIM_SRC=<patched worktree> ./check {pid} --tier quick",
                            "TOPSIM_SRC=<patched worktree> python -m lib.scan --tier quick (all code-dependent parts of all checks)"]
            meta["caught_by_own_check"] = meta.get("check_rc") == 1
            meta["caught_by"] = sorted(meta.get("scan", {}).get("caught_by", {}).keys())
    finally:
        sh(f"git -C {REPO} worktree remove --force {wt}")
    shutil.copy(patch, os.path.join(outdir, "patch.diff"))
    shutil.copy(demo, os.path.join(outdir, "demo.py"))
    if notes and os.path.exists(notes):
        meta["needs"] = open(notes).read()[:1500]
    return meta


if __name__ == "__main__":
    m = main()
    json.dump(m, open(os.path.join(sys.argv[4], "meta.json"), "w"), indent=1)
    print(json.dumps({k: v for k, v in m.items() if k not in ("scan", "needs", "demo_patched_tail")}, indent=1))
