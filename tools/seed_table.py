#!/venv/bin/python
"""renders seeded/*/meta.json as the markdown table of DESIGN.md section 12"""
import glob
import json
import os
import re

rows = []
for f in sorted(glob.glob("/verif/seeded/*/meta.json")):
    m = json.load(open(f))
    sid = os.path.basename(os.path.dirname(f))
    needs = (m.get("needs") or "").strip().splitlines()
    title = re.sub(r"^#+\s*", "", needs[0]) if needs else ""
    scan = m.get("scan", {}).get("caught_by", {})
    clauses = []
    for p, c in sorted(scan.items()):
        cl = sorted({k.split(":", 1)[1] for k in c})
        clauses.append("%s (%s)" % (p, ", ".join(cl[:4]) + (", ..." if len(cl) > 4 else "")))
    drift = sum(m.get("scan", {}).get("drift", {}).values()) if m.get("scan") else 0
    rows.append("| %s | %s | %s | %s | %s | %s |" % (
        sid, m["property"], title[:110].replace("|", "/"),
        "yes" if m.get("confirmed") else "NO",
        "**yes**" if m.get("caught_by_own_check") else "no",
        ("; ".join(clauses) or "-") + (" ; DRIFT %d events" % drift if drift else "")))
print("| seeded change | property | what (first line of the author's note) | confirmed | caught by the property's own quick check | failing clauses in the global scan |")
print("|---|---|---|---|---|---|")
print("\n".join(rows))
