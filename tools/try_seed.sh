#!/bin/sh
# usage: tools/try_seed.sh <seeded dir name> <property> [seed]
# applies seeded/<name>/patch.diff to a scratch worktree and runs ./check <property> against it
d=$1; p=$2; s=${3:-0}
w=/tmp/try_$d
git -C /repo worktree remove --force $w >/dev/null 2>&1
git -C /repo worktree add --detach $w HEAD -q || exit 2
git -C $w apply /verif/seeded/$d/patch.diff || exit 2
cd /verif && TOPSIM_SRC=$w VERIF_SEED=$s ./check $p 2>&1 | cut -c1-260 | tail -${TAILN:-4}
git -C /repo worktree remove --force $w
