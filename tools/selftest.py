#!/venv/bin/python
"""Demonstrates the binding: an accepted trace of a real execution is
corrupted in one place (one pool membership, one counter, one start time, one
row cell, one dropped record, two swapped records, one log entry) and must
then be rejected by TLC (L1 clause failure or L2 DRIFT).  Writes
/verif/selftest_report.json."""
import copy
import json
import os
import sys

sys.path.insert(0, "/verif")
from harness import runsim, gen  # noqa: E402
from lib import core  # noqa: E402
import random  # noqa: E402


def verdicts(traces):
    sd = core.scratch()
    try:
        p = os.path.join(sd, "shard_00.json")
        json.dump({"traces": traces, "gids": list(range(len(traces)))}, open(p, "w"))
        r = core.validate_shard(p)
    finally:
        import shutil
        shutil.rmtree(sd, ignore_errors=True)
    out = {}
    for v in core.parse_verdicts(r["out"]):
        if v["kind"] in ("L1", "DRIFT", "PROPOSAL"):
            out.setdefault(v["tid"], []).append(v["kind"] + ":" + v["what"][:40])
    return out


def main():
    rng = random.Random(7)
    cfg = gen.random_cfg(rng, alg="batch", family="roomy", nobs=2)
    base = runsim.run(cfg)          # full states
    base["tag"] = "selftest"
    full = [s["st"] for s in base["steps"]]

    def variant(mut):
        tr = copy.deepcopy(base)
        mut(tr)
        tr["steps"] = runsim.delta_encode(tr["steps"])
        return tr

    def find(tr, pred):
        for i, s in enumerate(tr["steps"]):
            if i > 3 and pred(s):
                return i
        raise RuntimeError("selftest: no suitable record")

    muts = {}
    muts["unmodified"] = lambda tr: None

    def pool(tr):
        i = find(tr, lambda s: s["st"]["cl"]["occ"])
        m = tr["steps"][i]["st"]["cl"]["occ"][0]
        tr["steps"][i]["st"]["cl"]["avail"] = sorted(tr["steps"][i]["st"]["cl"]["avail"] + [m])
    muts["machine in two pools"] = pool

    def counter(tr):
        i = find(tr, lambda s: s["st"]["cl"]["uRun"] > 0)
        tr["steps"][i]["st"]["cl"]["uRun"] += 1
    muts["running-task counter off by one"] = counter

    def ast(tr):
        i = find(tr, lambda s: any(t["k"] > 0 and t["ast"] >= 0 for t in s["st"]["tasks"]))
        for j in range(i, len(tr["steps"])):
            for t in tr["steps"][j]["st"]["tasks"]:
                if t["k"] > 0 and t["ast"] >= 0:
                    t["ast"] += 1
                    break
    muts["one task start time shifted"] = ast

    def row(tr):
        i = find(tr, lambda s: s["rows"])
        tr["steps"][i]["rows"][0]["running_tasks"] += 1
    muts["one row cell changed"] = row

    def drop(tr):
        i = find(tr, lambda s: s["lab"]["kind"] == "TP")
        del tr["steps"][i]
    muts["one record dropped"] = drop

    def swap(tr):
        i = find(tr, lambda s: s["lab"]["kind"] == "Tel")
        tr["steps"][i], tr["steps"][i + 1] = tr["steps"][i + 1], tr["steps"][i]
    muts["two records swapped"] = swap

    def log(tr):
        i = find(tr, lambda s: s["newlog"])
        tr["steps"][i]["newlog"] = tr["steps"][i]["newlog"][1:]
    muts["one log entry removed"] = log

    def free(tr):
        i = find(tr, lambda s: s["st"]["buf"]["hotFree"] < cfg["hotCap"])
        tr["steps"][i]["st"]["buf"]["hotFree"] -= 1
    muts["hot free space off by one"] = free

    names = list(muts)
    traces = [variant(muts[n]) for n in names]
    vs = verdicts(traces)
    report, ok = [], True
    for i, n in enumerate(names):
        got = sorted(set(vs.get(i + 1, [])))
        rejected = bool(got)
        expect = n != "unmodified"
        ok &= (rejected == expect)
        report.append({"corruption": n, "rejected": rejected, "expected_rejected": expect, "verdicts": got[:8]})
    json.dump({"ok": ok, "cases": report}, open("/verif/selftest_report.json", "w"), indent=1)
    for r in report:
        print(("ok  " if r["rejected"] == r["expected_rejected"] else "BAD ") + r["corruption"], r["verdicts"][:4])
    sys.exit(0 if ok else 1)


if __name__ == "__main__":
    main()
