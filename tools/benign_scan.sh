#!/bin/sh
# applies every behaviour-preserving patch of seeded/benign/ to a scratch worktree of /repo and runs the global
# scan (all L1 clauses of all properties) against it; prints the clauses that fired (expected: none)
for f in /verif/seeded/benign/*.diff; do
  n=$(basename $f .diff); w=/tmp/bw_$n
  git -C /repo worktree remove --force $w >/dev/null 2>&1
  git -C /repo worktree add --detach $w HEAD -q || exit 2
  git -C $w apply $f || { echo "$n: patch does not apply"; git -C /repo worktree remove --force $w; continue; }
  cd /verif && TOPSIM_SRC=$w /venv/bin/python -m lib.scan 2>/dev/null | /venv/bin/python -c "
import sys,json
t=sys.stdin.read(); d=json.loads(t[t.index('{'):]); print('$n', 'L1:', d['caught_by'], 'drift events:', sum(d['drift'].values()), 'errors:', d['machinery_errors'])"
  git -C /repo worktree remove --force $w
done
