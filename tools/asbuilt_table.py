#!/venv/bin/python
"""prints the per-property as-built table for DESIGN.md (clauses, MC instances, batches)"""
import re
import sys
sys.path.insert(0, "/verif")
from lib import main as M, parts as P

props = open("/verif/spec/Props.tla").read()
trace = open("/verif/spec/TraceSim.tla").read()
names = set(re.findall(r'"(C\d\d\.[A-Za-z]+)"', props + trace))
rows = []
extra_batches = {"C01": "simbatch + apibatch", "C02": "simbatch + apibatch (+ Apalache ClusterPools, design level)", "C09": "simbatch + apibatch", "C19": "simbatch + apibatch",
                 "C07": "simbatch + bufapibatch", "C18": "simbatch + bufapibatch", "C10": "hashpairs (TraceEq)", "C11": "segpairs (TraceEq) + interrupted traces",
                 "C14": "Pure records (plan)", "C16": "Pure records (config)", "C15": "simbatch + Pure records (delay)",
                 "C06": "simbatch + Pure records (runtime, monotonicity grid)"}
mc_extra = {"C01": "MC_ClusterAPI", "C02": "MC_ClusterAPI", "C09": "MC_ClusterAPI", "C19": "MC_ClusterAPI", "C07": "MC_Buffer",
            "C18": "MC_Buffer", "C10": "MC_Sim A, W, G (I_C10_det)", "C11": "MC_Sim S (A_C11, I_C13_*, I_End)",
            "C14": "-", "C16": "-"}
for i in range(1, 20):
    pid = "C%02d" % i
    cl = sorted(n.split(".")[1] for n in names if n.startswith(pid + "."))
    mc = M.MC_PROPS.get(pid)
    mcs = ""
    if mc:
        mcs = "MC_Sim %s: %s" % (",".join(mc[2]), ", ".join(mc[0] + mc[1]))
    if pid in mc_extra:
        mcs = (mcs + "; " if mcs else "") + mc_extra[pid]
    rows.append("| %s | %s | %s | %s |" % (pid, ", ".join(cl) or "(pair / record comparison)", mcs or "-",
                                        extra_batches.get(pid, "simbatch")))
print("| property | L1 clauses (spec/Props.tla, spec/TraceSim.tla) | design-level TLC instances | real executions judged |")
print("|---|---|---|---|")
print("\n".join(rows))
