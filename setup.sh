#!/bin/sh
# offline set-up: syntax-check every specification module, create directories
cd "$(dirname "$0")" || exit 1
mkdir -p evidence replays .cache
cd spec || exit 1
for m in TopSim TraceSim MC_Sim MC_ClusterAPI MC_Buffer Pure TraceEq; do
  java -cp /opt/veriftools/tla/tla2tools.jar:/opt/veriftools/tla/CommunityModules-deps.jar tla2sany.SANY $m.tla > /tmp/sany_$m.log 2>&1 || { cat /tmp/sany_$m.log; exit 1; }
  grep -q "Semantic errors\|Parse Error" /tmp/sany_$m.log && { cat /tmp/sany_$m.log; exit 1; }
done
rm -f /tmp/sany_*.log
echo setup ok
