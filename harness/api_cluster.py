"""Histories of Cluster operations executed on a real topsim Cluster
(DESIGN.md 4.3, ClusterAPI).  Each history becomes a trace in the same format
as a simulation trace: external calls are "CALL" records, the SimPy events of
the processes they create are ordinary event records."""
import contextlib
import io
import itertools
import os
import random
import shutil
import sys
import tempfile

import pandas as pd

from . import gen
from .tracer import TracingEnvironment, Projector
from .runsim import materialise, exc_view, HarnessError, delta_encode, TOPSIM_SRC  # noqa: F401
from simpy.core import StopSimulation


def api_cfg():
    def wf(n):
        return {"nodes": [{"k": k, "comp": 1, "data": 0} for k in range(1, n + 1)], "edges": []}
    cfg = {"machines": [{"id": "m0", "cpu": 1, "bw": 1}, {"id": "m1", "cpu": 1, "bw": 1},
                        {"id": "m2", "cpu": 1, "bw": 1}],
           "arrays": 4, "maxIngest": 3, "hotCap": 100, "coldCap": 100, "hotRate": 5, "coldRate": 5,
           "obs": [{"o": "a", "est": 0, "dur": 2, "demand": 1, "ing": 1, "rate": 1, "wf": wf(2)},
                   {"o": "b", "est": 0, "dur": 1, "demand": 1, "ing": 2, "rate": 1, "wf": wf(1)},
                   {"o": "c", "est": 0, "dur": 1, "demand": 1, "ing": 1, "rate": 1, "wf": wf(1)}],
           "alg": "queue", "api": True}
    return gen.normalise(cfg)


def alphabet():
    ops = []
    for size in (0, 1, 2, 3):
        for o in ("a", "b"):
            ops.append({"op": "ProvBatch", "o": o, "size": size})
    for o in ("a", "b"):
        ops.append({"op": "Release", "o": o})
        ops.append({"op": "ProvIngest", "o": o})
    for (o, k) in (("a", 1), ("a", 2), ("b", 1)):
        for m in ("m0", "m1", "foreign"):
            ops.append({"op": "Alloc", "o": o, "k": k, "m": m})
    ops.append({"op": "Tick"})
    return ops


def legal(seq):
    """each task is handed to the cluster at most once, each observation is
    ingest-provisioned at most once (object identity of Task would otherwise
    alias in the harness' task table)"""
    seen = set()
    for op in seq:
        if op["op"] == "Alloc":
            key = ("T", op["o"], op["k"])
        elif op["op"] == "ProvIngest":
            key = ("I", op["o"])
        else:
            continue
        if key in seen:
            return False
        seen.add(key)
    return True


def histories(depth):
    ops = alphabet()
    for seq in itertools.product(ops, repeat=depth):
        if legal(seq):
            yield list(seq)


def random_histories(seed, n, lo=5, hi=12):
    rng = random.Random(seed)
    ops = alphabet()
    weights = [3 if o["op"] == "Tick" else 1 for o in ops]
    out = []
    while len(out) < n:
        L = rng.randint(lo, hi)
        seq = []
        for _ in range(L * 3):
            op = rng.choices(ops, weights)[0]
            if legal(seq + [op]):
                seq.append(op)
            if len(seq) == L:
                break
        out.append(seq)
    return out


class _Stub:
    pass


def _stub_sim(cluster, cfg):
    from topsim.core.buffer import HotBuffer, ColdBuffer
    from topsim.core.scheduler import ScheduleStatus
    sim = _Stub()
    sim.cluster = cluster
    ins = _Stub()
    from topsim.core.instrument import RunStatus
    ins.observations = []
    for ob in cfg["obs"]:
        o = _Stub()
        o.name, o.status, o.ast, o.total_data_size, o.plan = ob["o"], RunStatus.WAITING, None, 0, None
        ins.observations.append(o)
    ins.events, ins.telescope_use, ins.telescope_status = [], 0, False
    ins.is_idle = lambda: False
    sch = _Stub()
    sch.observation_queue, sch.provision_ingest, sch.events = [], 0, []
    sch.schedule_status, sch.delay_offset = ScheduleStatus.ONTIME, 0
    sch.is_idle = lambda: True
    buf = _Stub()
    buf.hot = {0: HotBuffer(cfg["hotCap"], cfg["hotRate"])}
    buf.cold = {0: ColdBuffer(cfg["coldCap"], cfg["coldRate"])}
    buf._data_left_to_transfer, buf.stored_times, buf.events = 0, [], []
    buf.is_empty = lambda: True
    mon = _Stub()
    mon.df, mon.events = pd.DataFrame(), pd.DataFrame()
    sim.instrument, sim.scheduler, sim.buffer, sim.monitor = ins, sch, buf, mon
    sim.is_finished = lambda: False
    return sim


def run_history(cfg, seq):
    from topsim.core.cluster import Cluster
    from topsim.core.config import Config
    from topsim.core.task import Task
    from .standins import Foreign

    workdir = tempfile.mkdtemp(prefix="topsim_api_")
    out = {"cfg": cfg, "segs": [], "perm": -1, "steps": [], "tag": "api", "ops": seq}
    try:
        with contextlib.redirect_stdout(io.StringIO()), contextlib.redirect_stderr(io.StringIO()):
            path = materialise(cfg, workdir)
            env = TracingEnvironment(scale=cfg.get("K", 1))
            cluster = Cluster(env, Config(path))
            sim = _stub_sim(cluster, cfg)
            env.sim = sim
            proj = Projector(sim, env, {}, cfg)
            obs = {}
            for ob in cfg["obs"]:
                o = _Stub()
                o.name, o.duration = ob["o"], ob["dur"]
                obs[ob["o"]] = o
            demand = {ob["o"]: ob["ing"] for ob in cfg["obs"]}
            steps = out["steps"]
            foreign = Foreign(cluster.machines[0])
            tasks = {}

            def record(lab, exc, raised="", callexc=""):
                st = proj.state()
                if exc is not None:
                    st["crashed"] = type(exc).__name__
                if (exc is None and lab["kind"] in ("END", "STOPR") and steps
                        and all(steps[-1]["st"][k] == st[k] for k in st if k not in ("queue", "procs"))):
                    steps[-1]["st"]["queue"] = st["queue"]
                    steps[-1]["st"]["procs"] = st["procs"]
                    return
                steps.append({"t": env.ts(env.now), "lab": lab, "seg": 0, "st": st, "rows": [], "newlog": [],
                              "prop": [], "dcalls": [],
                              "exc": exc_view(exc) if exc is not None else {"type": "", "msg": "", "site": ""},
                              "raised": raised, "callexc": callexc})

            def on_event(lab, exc):
                try:
                    record(lab, exc, env.last_raised)
                except BaseException as he:
                    raise HarnessError(repr(he)) from he

            record({"kind": "INIT", "o": "", "k": 0, "n": 0}, None)
            env.on_event = on_event
            for op in seq:
                callexc = ""
                lab = {"kind": "CALL", "o": op["op"], "k": 0, "n": 0}
                call = {"op": op["op"], "o": op.get("o", ""), "size": op.get("size", 0),
                        "k": op.get("k", 0), "m": op.get("m", "")}
                if op["op"] == "Tick":
                    record(dict(lab), None)
                    steps[-1]["call"] = call
                    try:
                        env.run(until=env.now + 1)
                    except HarnessError:
                        raise
                    except BaseException:
                        # the failed process' exception escaped env.run: drop the
                        # now stale `until` event so that later runs are not cut short
                        env._queue = [e for e in env._queue
                                      if not any(cb == StopSimulation.callback for cb in (e[3].callbacks or []))]
                        import heapq
                        heapq.heapify(env._queue)
                        steps[-1]["st"]["queue"] = proj.state()["queue"]
                    continue
                try:
                    if op["op"] == "ProvBatch":
                        cluster.provision_batch_resources(op["size"], op["o"])
                    elif op["op"] == "Release":
                        cluster.release_batch_resources(op["o"])
                    elif op["op"] == "ProvIngest":
                        env.process(cluster.provision_ingest_resources(demand[op["o"]], obs[op["o"]]))
                    elif op["op"] == "Alloc":
                        o, k = op["o"], op["k"]
                        if k < 0:
                            t = Task(f"{o}_ingest_t{-k - 1}", 0, 0, None, None, 0, 0, 0, None)
                            t.duration = obs[o].duration
                            from topsim.core.task import TaskStatus
                            t.task_status = TaskStatus.SCHEDULED
                        else:
                            t = Task(f"{o}_0_{k - 1}", 0, 0, None, [], 1, 0, {}, None, gid=k - 1)
                        tasks[(o, k)] = t
                        proj.all_tasks[(o, k)] = t
                        m = foreign if op["m"] == "foreign" else cluster.machine_ids[op["m"]]
                        env.process(cluster.allocate_task_to_cluster(t, m, None, o, ingest=(k < 0)))
                except HarnessError:
                    raise
                except Exception as e:  # the call itself raised
                    callexc = type(e).__name__
                record(lab, None, "", callexc)
                steps[-1]["call"] = call
            out["end"] = {"completed": True, "exc": {"type": "", "msg": "", "site": ""}, "budget": False,
                          "calls": [], "t": env.ts(env.now), "st": proj.state(), "rows": [], "log": [],
                          "tasktable": [], "plans": []}
            for s_ in steps:
                s_.setdefault("call", {"op": "", "o": "", "size": 0, "k": 0, "m": ""})
                s_.setdefault("callexc", "")
            delta_encode(steps)
    finally:
        shutil.rmtree(workdir, ignore_errors=True)
    return out
