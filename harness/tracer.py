"""Tracing / permuting SimPy environment and the projection of a live topsim
Simulation onto the abstract state of spec/TopSim.tla.

No source hooks: everything is read from the objects the Simulation exposes
and from SimPy's own event heap.  The same projection function is used for
trace validation (code -> spec) and for replay (spec -> code).
"""
import re
import random
from heapq import heappush

import simpy
from simpy.core import NORMAL, URGENT, StopSimulation
from simpy.events import Process, Initialize

NONE_T = -1  # sentinel for "no time" (TLC's JSON reader rejects null)


class ProcInfo:
    __slots__ = ("proc", "kind", "o", "k", "m", "n", "created")

    def __init__(self, proc, kind, o="", k=0, m="", n=0, created=0):
        self.proc, self.kind, self.o, self.k, self.m, self.n = proc, kind, o, k, m, n
        self.created = created

    def ref(self):
        return {"kind": self.kind, "o": self.o, "k": self.k, "n": self.n}


_ACTOR_KINDS = {"Monitor": "Mon", "Cluster": "Clu", "Scheduler": "Sch",
                "Buffer": "Buf"}


def task_key(task):
    """(observation name, k) for a topsim Task.  Plan tasks: k = graph node
    id (int >= 0) shifted by +1; ingest tasks: k = -(i+1)."""
    tid = str(task.id)
    m = re.match(r"^(.*)_ingest_t(\d+)$", tid)
    if m:
        return m.group(1), -(int(m.group(2)) + 1)
    gid = getattr(task, "graph_id", None)
    parts = tid.rsplit("_", 2)
    if gid is None:
        gid = int(parts[2])
    return parts[0], int(gid) + 1


NONREP = -7


class TracingEnvironment(simpy.Environment):
    """simpy.Environment that (a) keeps a registry of every process created,
    (b) records one trace entry after every processed event, (c) optionally
    permutes the order of same-time NORMAL events (perm_seed is not None)."""

    def __init__(self, perm_seed=None, perm_kinds=None, scale=1):
        super().__init__()
        self.registry = {}      # Process -> ProcInfo
        self.counter = 0
        self.process = self._traced_process
        self.sim = None
        self.records = []
        self.on_event = None    # callable(label) -> None after each event
        self.perm = random.Random(perm_seed) if perm_seed is not None else None
        self.perm_kinds = perm_kinds
        self.scale = scale
        self.nevents = 0
        self.max_events = 200000
        self.nmove = 0
        self.last_raised = ""
        self.alg_rounds = {}

    # -- registry -----------------------------------------------------------
    def _traced_process(self, generator):
        p = Process(self, generator)
        self.registry[p] = self._describe(p, generator)
        return p

    def _describe(self, p, gen):
        self.counter += 1
        name = gen.gi_code.co_name
        loc = gen.gi_frame.f_locals if gen.gi_frame is not None else {}
        slf = loc.get("self")
        info = ProcInfo(p, "??", n=0, created=self.counter)
        if name == "run":
            cn = slf.__class__.__name__
            info.kind = _ACTOR_KINDS.get(cn, "Tel")
        elif name == "allocate_ingest":
            info.kind, info.o = "AI", loc["observation"].name
        elif name == "provision_ingest_resources":
            info.kind, info.o = "PI", loc["observation"].name
        elif name == "ingest_data_stream":
            info.kind, info.o = "ST", loc["observation"].name
        elif name == "allocate_tasks":
            info.kind, info.o = "AT", loc["observation"].name
        elif name == "allocate_task_to_cluster":
            o, k = task_key(loc["task"])
            info.kind, info.o, info.k = "TP", o, k
            info.m = str(loc["machine"].id)
        elif name == "do_work":
            o, k = task_key(slf)
            info.kind, info.o, info.k = "WK", o, k
            info.m = str(loc["machine"].id)
        elif name == "move_hot_to_cold":
            self.nmove += 1
            info.kind, info.n = "H2C", self.nmove
        elif name == "move_cold_to_hot":
            self.nmove += 1
            info.kind, info.n = "C2H", self.nmove
        else:
            info.kind = "X_" + name
        return info

    # -- permutation of same-time NORMAL events -----------------------------
    # Chosen at pop time: when the head of the heap is a NORMAL event of a
    # permutable kind, any other NORMAL event of a permutable kind due at the
    # same instant may be processed instead (exactly spec/TopSimStep!Cand).
    def schedule(self, event, priority=NORMAL, delay=0):
        heappush(self._queue,
                 (self._now + delay, priority, (0.0, next(self._eid)), event))

    def _permute_head(self):
        if self.perm is None or not self._queue:
            return
        t0, p0, k0, ev0 = self._queue[0]
        if p0 != NORMAL:
            return
        kinds = self.perm_kinds
        lab0 = self._label(ev0, t0)["kind"]
        if kinds is not None and lab0 not in kinds:
            return
        cands = [i for i, (t, p, k, ev) in enumerate(self._queue)
                 if t == t0 and p == NORMAL
                 and (kinds is None or self._label(ev, t)["kind"] in kinds)]
        i = self.perm.choice(sorted(cands, key=lambda j: self._queue[j][2]))
        if i == 0:
            return
        t, p, k, ev = self._queue[i]
        self._queue[i] = (t, p, (-1.0, k[1]), ev)
        import heapq
        heapq.heapify(self._queue)

    # -- stepping -----------------------------------------------------------
    def head_label(self):
        if not self._queue:
            return None
        t, prio, _, ev = self._queue[0]
        return self._label(ev, t)

    def _label(self, ev, t):
        cbs = ev.callbacks or []
        for cb in cbs:
            if cb == StopSimulation.callback:
                return {"kind": "STOP", "o": "", "k": 0, "n": 0}
            slf = getattr(cb, "__self__", None)
            if isinstance(slf, Process) and slf in self.registry:
                return self.registry[slf].ref()
        if isinstance(ev, Process):
            r = self.registry[ev].ref() if ev in self.registry else {"kind": "??", "o": "", "k": 0, "n": 0}
            return {"kind": "END", "o": r["o"], "k": r["k"], "n": r["n"], "of": r["kind"]}
        if type(ev) is simpy.events.Event and not cbs:
            # residue of a StopSimulation (re-scheduled by Environment.step)
            return {"kind": "STOPR", "o": "", "k": 0, "n": 0}
        return {"kind": "??", "o": "", "k": 0, "n": 0}

    def step(self):
        self._permute_head()
        lab = self.head_label()
        head_ev = self._queue[0][3] if self._queue else None
        self.last_raised = ""
        self.nevents += 1
        if self.nevents > self.max_events:
            raise RuntimeError("harness: event budget exceeded")
        self._last_cbs = [getattr(cb, "__self__", None) for cb in (head_ev.callbacks or [])] if head_ev is not None else []
        try:
            super().step()
        except StopSimulation:
            if self.on_event:
                self.on_event(lab, None)
            raise
        except BaseException as e:
            if self.on_event:
                self.on_event(lab, e)
            raise
        if head_ev is not None:
            for p in self._resumed_procs(head_ev):
                if (not p.is_alive) and p._ok is False:
                    self.last_raised = type(p._value).__name__
        if self.on_event:
            self.on_event(lab, None)

    def _resumed_procs(self, ev):
        return [p for p in self._last_cbs if isinstance(p, Process)]

    def queue_view(self):
        """Sorted view of the heap: [time, prio, proc-ref]."""
        out = []
        for (t, prio, eid, ev) in sorted(self._queue, key=lambda x: x[:3]):
            lab = self._label(ev, t)
            if lab["kind"] == "STOPR":
                continue
            if lab["kind"] == "END":
                if getattr(ev, "_ok", True) is False:
                    pid = ["CRASH", type(ev._value).__name__, 0, 0]
                else:
                    continue
            else:
                pid = [lab["kind"], lab["o"], lab["k"], lab["n"]]
            out.append({"t": self.ts(t), "p": max(int(prio), 0) if lab["kind"] != "STOP" else 0, "pid": pid})
        return out

    def ts(self, t):
        """scaled integer time.  A time that is not a whole number of ticks at
        the configuration's scale (impossible for times computed from this
        configuration: the scale is the lcm of its bandwidths) is reported as the
        value NONREP, which no clause or step of the specification accepts."""
        v = t * self.scale
        r = round(v)
        if abs(v - r) > 1e-9:
            self.nonrep = getattr(self, "nonrep", 0) + 1
            return NONREP
        return int(r)


# ---------------------------------------------------------------------------
# projection


def _ids(ms):
    return sorted(str(m.id) for m in ms)


def _tref(t):
    o, k = task_key(t)
    return {"o": o, "k": k}


class Projector:
    def __init__(self, sim, env, plans, cfg):
        self.sim, self.env, self.plans, self.cfg = sim, env, plans, cfg
        self.all_tasks = {}   # (o,k) -> Task
        # the observation objects of the plan, as configured (the instrument's own
        # list is the implementation's business: it need not stay complete)
        self.all_obs = list(getattr(sim.instrument, "observations", []))
        self.with_queue = True
        self.proposals = []
        self.alloc_time = {}

    def _collect_tasks(self):
        cl = self.sim.cluster._clusters["default"]
        for t in list(cl["tasks"]["running"]) + list(cl["tasks"]["finished"].keys()):
            self.all_tasks.setdefault(task_key(t), t)
        for o, tasks in self.plans.items():
            for t in tasks:
                self.all_tasks.setdefault(task_key(t), t)
        for info in self.env.registry.values():
            if info.kind in ("TP", "WK") and (info.o, info.k) not in self.all_tasks:
                g = info.proc._generator
                if g is not None and g.gi_frame is not None:
                    loc = g.gi_frame.f_locals
                    t = loc.get("task") if info.kind == "TP" else loc.get("self")
                    if t is not None:
                        self.all_tasks[(info.o, info.k)] = t

    def state(self):
        sim, env = self.sim, self.env
        ts = env.ts
        c = sim.cluster
        cl = c._clusters["default"]
        res, tk, us = cl["resources"], cl["tasks"], cl["usage_data"]
        self._collect_tasks()
        import inspect
        live = []
        tp_m = {}
        for info in env.registry.values():
            if info.kind == "TP":
                tp_m[(info.o, info.k)] = info.m
        for info in env.registry.values():
            p = info.proc
            if not p.is_alive:
                continue
            g = p._generator
            started = inspect.getgeneratorstate(g) != "GEN_CREATED"
            loc = g.gi_frame.f_locals if g.gi_frame is not None else {}
            rec = {"pid": [info.kind, info.o, info.k, info.n], "started": bool(started),
                   "left": 0, "m": "", "ph": "", "sched": []}
            if info.kind in ("AI", "ST") and started:
                rec["left"] = int(loc.get("time_left", 0))
            elif info.kind == "AT":
                rec["left"] = sum(1 for pr in self.proposals if pr["o"] == info.o)
                if started:
                    sch = loc.get("schedule") or {}
                    rec["sched"] = sorted(({"k": task_key(t)[1], "m": str(m.id)} for t, m in sch.items()),
                                          key=lambda r: r["k"])
                    if loc.get("finished") is True:
                        rec["ph"] = "done"
            elif info.kind == "TP":
                rec["m"] = info.m
            elif info.kind == "WK":
                rec["m"] = info.m
                if not started:
                    rec["ph"] = "new"
                elif "total_duration" in loc:
                    rec["ph"] = "work"
                    rec["left"] = int(loc["total_duration"])
                else:
                    rec["ph"] = "wait"
            elif info.kind in ("H2C", "C2H") and started:
                co = loc.get("current_obs")
                rec["ph"] = co.name if co is not None else ""
                rec["left"] = int(loc.get("data_left_to_transfer", 0))
            live.append(rec)
        live.sort(key=lambda r: r["pid"])
        tasks = []
        for key, t in self.all_tasks.items():
            if key not in self.alloc_time and t.task_status.name != "UNSCHEDULED":
                self.alloc_time[key] = ts(env.now)
        for (o, k), t in sorted(self.all_tasks.items()):
            am = t.allocated_machine_id
            am = str(getattr(am, "id", am)) if am is not None else ""
            tasks.append({
                "o": o, "k": k, "status": t.task_status.name,
                "ast": ts(t.ast) if t.ast != -1 else NONE_T,
                "aft": ts(t.aft) if t.aft != -1 else NONE_T,
                "dur": int(t.duration), "flag": bool(t.delay_flag),
                "pm": am, "doff": ts(t.delay_offset), "m": tp_m.get((o, k), ""),
                "alloc": self.alloc_time.get((o, k), NONE_T),
            })
        # a workflow node of a planned observation for which the plan has no task:
        # reported as a task that does not exist (status MISSING), so that the
        # specification's clauses have a verdict on it
        nodes = {ob["o"]: [n["k"] for n in ob["wf"]["nodes"]] for ob in self.cfg.get("obs", [])}
        for o in self.plans:
            for k in nodes.get(o, []):
                if (o, k) not in self.all_tasks:
                    tasks.append({"o": o, "k": k, "status": "MISSING", "ast": NONE_T, "aft": NONE_T, "dur": 0,
                                  "flag": False, "pm": "", "doff": 0, "m": "", "alloc": NONE_T})
        tasks.sort(key=lambda r: (r["o"], r["k"]))
        obs = []
        for ob in sim.instrument.observations:
            if not any(ob is x for x in self.all_obs):
                self.all_obs.append(ob)
        for ob in self.all_obs:
            plan = ob.plan
            obs.append({
                "o": ob.name, "status": ob.status.name,
                "ast": ts(ob.ast) if ob.ast is not None else NONE_T,
                "data": int(ob.total_data_size),
                "planned": plan is not None,
                "remaining": sorted(task_key(t)[1] for t in plan.tasks) if plan is not None else [],
                "planStatus": plan.status.name if plan is not None else "",
                "planAst": ts(plan.ast) if (plan is not None and getattr(plan, "ast", None) is not None) else NONE_T,
            })
        b = sim.buffer
        hot, cold = b.hot[0], b.cold[0]
        tel = sim.instrument
        sch = sim.scheduler

        def evs(lst):
            return [{"t": ts(e["time"]), "o": str(e["observation"]),
                     "r": str(e["resource"]), "e": str(e["event"])} for e in lst]

        mon = sim.monitor
        st = {
            "cl": {
                "avail": _ids(res["available"]), "ingest": _ids(res["ingest"]),
                "occ": _ids(res["occupied"]),
                "idle": [{"o": str(o), "ms": _ids(ms)}
                         for o, ms in sorted(res["idle"].items())],
                "running": sorted((_tref(t) for t in tk["running"]), key=lambda r: (r["o"], r["k"])),
                "runningN": len(tk["running"]),
                "fin": sorted(({"o": task_key(t)[0], "k": task_key(t)[1], "v": bool(v)}
                               for t, v in tk["finished"].items()), key=lambda r: (r["o"], r["k"])),
                "uAvail": int(us["available"]), "uRun": int(us["running_tasks"]),
                "uFin": int(us["finished_tasks"]), "uIng": int(us["ingest"]),
                "numProv": int(c.num_provisioned_obs),
                "ingStatus": bool(cl["ingest"]["status"]),
            },
            "tasks": tasks,
            "obs": obs,
            "tel": {"use": int(tel.telescope_use), "flag": bool(tel.telescope_status)},
            "sch": {"queue": [o.name for o in sch.observation_queue],
                    "prov": int(sch.provision_ingest),
                    "pend": int(getattr(sch, "pending_ingest", 0)),
                    "status": sch.schedule_status.name,
                    "doff": ts(sch.delay_offset)},
            "buf": {
                "hotFree": int(hot.current_capacity), "coldFree": int(cold.current_capacity),
                "hotStored": [o.name for o in hot.observations["stored"]],
                "hotSched": [o.name for o in hot.observations["scheduled"]],
                "hotFin": [o.name for o in hot.observations["finished"]],
                "hotTr": hot.observations["transfer"].name if hot.observations["transfer"] else "",
                "coldStored": [o.name for o in cold.observations["stored"]],
                "coldTr": cold.observations["transfer"].name if cold.observations["transfer"] else "",
                "dataLeft": int(b._data_left_to_transfer),
                "storedTimes": [ts(x) for x in b.stored_times],
            },
            "ev": {"tel": evs(tel.events), "sch": evs(sch.events), "buf": evs(b.events)},
            "mon": {"rows": int(len(mon.df)), "log": int(len(mon.events))},
            "q": {"cluIdle": bool(c.is_idle()), "bufEmpty": bool(b.is_empty()),
                  "schIdle": bool(sch.is_idle()), "telIdle": bool(tel.is_idle()),
                  "fin": bool(sim.is_finished())},
            "now": ts(env.now), "crashed": "",
            "procs": live,
            "queue": env.queue_view(),
            "nmove": env.nmove,
        }
        return st


ROW_COLS = ["available_resources", "ingest_resources", "running_tasks",
            "finished_tasks", "provisioned_observations", "hot_buffer",
            "cold_buffer", "stored", "observations_waiting",
            "observations_finished", "observations_delayed",
            "scheduler_observation_queue", "schedule_status", "delay_offset"]


SCALED_COLS = ("observations_delayed", "delay_offset")


def row_view(df, i, ts=None):
    r = df.iloc[i]
    out = {}
    for c in ROW_COLS:
        v = r[c]
        if c == "schedule_status":
            out[c] = str(v)
        else:
            fv = float(v)
            if c in SCALED_COLS and ts is not None:
                out[c] = ts(fv)          # durations: reported in ticks
            else:
                out[c] = int(round(fv)) if abs(fv - round(fv)) < 1e-9 else fv
    return out


def log_view(events_df, start=0, ts=int):
    out = []
    if len(events_df) == 0:
        return out
    for i in range(start, len(events_df)):
        r = events_df.iloc[i]
        out.append({"t": ts(r["time"]), "a": str(r["actor"]), "o": str(r["observation"]),
                    "r": str(r["resource"]), "e": str(r["event"])})
    return out
