"""Materialise an abstract configuration, run the real topsim Simulation under
the tracing environment and return the trace (dict, JSON-serialisable)."""
import contextlib
import io
import json
import os
import random
import shutil
import sys
import tempfile
import traceback

TOPSIM_SRC = os.environ.get("TOPSIM_SRC", "/repo")
if TOPSIM_SRC not in sys.path:
    sys.path.insert(0, TOPSIM_SRC)

import warnings
warnings.filterwarnings("ignore")

from .tracer import TracingEnvironment, Projector, row_view, log_view, task_key  # noqa: E402


_POLICIES = {}


def _frac(cfg, i):
    """fractional part added to the i-th observation's data rate in the file
    (|frac| < 1/2, so the parsed per-step rate is the configured integer)"""
    if not cfg.get("fracRate"):
        return 0.0
    f = (0.3, 0.2, -0.3, 0.4)[i % 4]
    return abs(f) if cfg["obs"][i]["rate"] == 0 else f


def write_workflow(path, wf):
    g = {"directed": True, "multigraph": False, "graph": {},
         "nodes": [], "edges": []}
    for n in wf["nodes"]:
        d = {"id": n["k"] - 1, "comp": n["comp"]}
        # the data demand is an optional key of a workflow node (absent = none)
        if n.get("data") is not None and not (wf.get("sparse") and n["data"] == 0):
            d["task_data"] = n["data"]
        g["nodes"].append(d)
    for e in wf["edges"]:
        g["edges"].append({"source": e["u"] - 1, "target": e["v"] - 1,
                           "transfer_data": e["vol"]})
    with open(path, "w") as f:
        # the header of a workflow file carries generator metadata that the
        # simulator must not interpret (the repository's files say "time": "false")
        json.dump({"header": wf.get("header", {}), "graph": g}, f)


def materialise(cfg, d):
    """cfg values are *post-scaling* (per-timestep) values; the JSON written
    uses timestep 'seconds' (multiplier 1) unless cfg['unit'] is given, in
    which case raw values are divided/multiplied back so that parsing yields
    the cfg values."""
    unit = cfg.get("unit", "seconds")
    mult = {"seconds": 1, "minutes": 60, "hours": 3600}.get(unit, unit if isinstance(unit, int) else 1)
    pipelines, observations = {}, []
    seen_wf = {}
    for ob in cfg["obs"]:
        # pipelines with the same workflow share one file (as the repository's
        # own sample configurations do)
        key = json.dumps(ob["wf"], sort_keys=True)
        if key not in seen_wf:
            seen_wf[key] = f"wf_{ob['o']}.json"
            write_workflow(os.path.join(d, seen_wf[key]), ob["wf"])
        wfp = seen_wf[key]
        pipelines[ob["o"]] = {"workflow": wfp, "ingest_demand": ob["ing"]}
        K = cfg.get("K", 1)
        start = ob.get("estT", ob["est"] * K) * mult
        if start % K:
            raise ValueError("harness: planned start not representable in the configuration file")
        observations.append({"name": ob["o"], "start": start // K,
                             "duration": ob["dur"] * mult,
                             "instrument_demand": ob["demand"],
                             # the parser rounds rate x unit to whole data units per step:
                             # a configuration may spell the rate with a fraction
                             "data_product_rate": (ob["rate"] + _frac(cfg, len(observations))) / mult})
    conf = {
        "instrument": {"telescope": {"total_arrays": cfg["arrays"],
                                     "max_ingest_resources": cfg["maxIngest"],
                                     "pipelines": pipelines,
                                     "observations": observations}},
        "cluster": {"header": {}, "system": {
            "resources": {m["id"]: {"flops": m["cpu"] / mult if mult != 1 else m["cpu"],
                                    "compute_bandwidth": m["bw"] / mult if mult != 1 else m["bw"]}
                          for m in cfg["machines"]},
            "system_bandwidth": 1}},
        "buffer": {"hot": {"capacity": cfg["hotCap"], "max_ingest_rate": cfg["hotRate"] / mult if mult != 1 else cfg["hotRate"]},
                   "cold": {"capacity": cfg["coldCap"], "max_data_rate": cfg["coldRate"] / mult if mult != 1 else cfg["coldRate"]}},
    }
    if unit != "seconds":
        conf["timestep"] = unit
    p = os.path.join(d, "config.json")
    with open(p, "w") as f:
        json.dump(conf, f)
    return p


def build(cfg, workdir, perm_seed=None, perm_kinds=None):
    from topsim.core.simulation import Simulation
    from topsim.user.telescope import Telescope
    from topsim.user.schedule.batch_allocation import BatchProcessing
    from topsim.user.schedule.queue_allocation import QueueProcessing
    from topsim.user.schedule.dynamic_plan import DynamicSchedulingFromPlan
    from topsim.user.schedule.greedy import GreedySchedulingFromPlan
    from . import standins as S

    path = materialise(cfg, workdir)
    env = TracingEnvironment(perm_seed=perm_seed, perm_kinds=perm_kinds, scale=cfg.get("K", 1))
    extra = {(e["o"], e["k"]): e["x"] for e in cfg.get("extra", [])}
    reg = S.PlanRegistry(extra)
    proposals = []
    alg = cfg["alg"]
    if alg in ("plan", "greedy"):
        assignment = {(a["o"], a["k"]): a for a in cfg["plan"]}
        planning = S.StaticPlanning(reg, assignment)
    else:
        dm = None
        if cfg.get("realDelay"):
            # a real topsim DelayModel handed to the planning model (C10 only:
            # the drawn delays are not part of the specification)
            from topsim.core.delay import DelayModel
            rd = cfg["realDelay"]
            # one model object per parameter set serves every simulation of the
            # process (the experiment loop of topsim's own documentation does so)
            dm = _POLICIES.setdefault(("delay", rd["prob"], rd["dist"], rd["degree"], rd["seed"]),
                                      DelayModel(rd["prob"], rd["dist"], DelayModel.DelayDegree[rd["degree"]], rd["seed"]))
        if dm is not None and not cfg["realDelay"].get("viaSim"):
            planning = S.HBatchPlanning(reg, dm)
        else:
            # one planning-model object (built without a delay model of its own)
            # serves consecutive simulations of a process, as in a parameter sweep
            planning = _POLICIES.setdefault("planning", S.HBatchPlanning(None, None))
            planning.registry = reg
    # scheduling-policy objects are reused by consecutive runs of one process
    # (as an experiment loop would): they must not carry state between runs
    def policy(key, make):
        if key not in _POLICIES:
            _POLICIES[key] = make()
        return _POLICIES[key]
    if alg == "batch":
        split = None
        if cfg.get("split"):
            split = {s["o"]: (s["min"], s["max"]) for s in cfg["split"]}
        inner = policy(("batch", cfg["parts"], cfg["minPer"], json.dumps(cfg.get("split") or [], sort_keys=True)),
                       lambda: BatchProcessing(max_resource_partitions=cfg["parts"],
                                               min_resources_per_workflow=cfg["minPer"],
                                               resource_split=split))
        algo = S.RecordingAlgorithm(inner, proposals)
    elif alg == "queue":
        algo = S.RecordingAlgorithm(policy("queue", QueueProcessing), proposals)
    elif alg == "plan":
        algo = S.RecordingAlgorithm(policy("plan", DynamicSchedulingFromPlan), proposals)
    elif alg == "greedy":
        algo = S.RecordingAlgorithm(policy("greedy", GreedySchedulingFromPlan), proposals)
    elif alg == "adv":
        script = {}
        for s in cfg.get("adv", []):
            script[(s["o"], s["r"])] = [(p["k"], p["m"]) for p in s["prop"]]
        rng = random.Random(cfg.get("advSeed", 0)) if cfg.get("advWild", True) else None
        algo = S.ScriptedAdversary(script, rng, proposals, wild_rounds=cfg.get("advRounds", 6),
                                   prov=cfg.get("advProv", 0))
    else:
        raise ValueError(alg)
    if cfg.get("prelude") and alg in ("batch", "queue"):
        _run_prelude(cfg, workdir, S, planning, algo.inner, reg)
    if cfg.get("decoy"):
        _start_decoy(cfg, path, S)
    # the simulation's own `delay` argument: the scripted stand-in, or (viaSim)
    # a real DelayModel, which the batch planning model does not consult
    simdelay = dm if (alg not in ("plan", "greedy") and dm is not None and cfg["realDelay"].get("viaSim")) \
        else S.ScriptedDelayModel()
    sim = Simulation(env, path, Telescope, planning, 'batch', algo,
                     delay=simdelay, timestamp=0)
    env.sim = sim
    return sim, env, reg, proposals


_DECOYS = []


def _run_prelude(cfg, workdir, S, planning, policy, reg):
    """an earlier simulation of the same process, run to its end with the very
    same planning-model and scheduling-policy objects on a larger cluster (two
    more machines), as a parameter sweep would do: nothing of it may be left
    in those objects when the traced simulation starts"""
    import simpy
    from topsim.core.simulation import Simulation
    from topsim.user.telescope import Telescope
    big = dict(cfg)
    big["machines"] = list(cfg["machines"]) + [{"id": "m8", "cpu": 1, "bw": 1}, {"id": "m9", "cpu": 2, "bw": 1}]
    sub = os.path.join(workdir, "prelude")
    os.makedirs(sub, exist_ok=True)
    try:
        p2 = materialise(big, sub)
        if hasattr(planning, "registry"):
            planning.registry = S.PlanRegistry({})
        d = Simulation(simpy.Environment(), p2, Telescope, planning, 'batch', policy,
                       delay=S.ScriptedDelayModel(), timestamp=0)
        d.start(runtime=300)
    except HarnessError:
        raise
    except Exception:       # the prelude's own fate is not under test
        pass
    finally:
        if hasattr(planning, "registry"):
            planning.registry = reg


def _start_decoy(cfg, path, S):
    """a second, independent simulation of the same configuration that is
    paused after cfg["decoy"] steps and stays alive while the traced one runs:
    simulations in one process share nothing"""
    import simpy
    from topsim.core.simulation import Simulation
    from topsim.user.telescope import Telescope
    from topsim.user.schedule.queue_allocation import QueueProcessing
    try:
        d = Simulation(simpy.Environment(), path, Telescope, S.HBatchPlanning(S.PlanRegistry({}), None), 'batch',
                       QueueProcessing(), delay=S.ScriptedDelayModel(), timestamp=0)
        _DECOYS.append(d)
        del _DECOYS[:-3]
        d.start(runtime=cfg["decoy"])
    except HarnessError:
        raise
    except Exception:       # the decoy's own fate is not under test
        pass


class HarnessError(BaseException):
    """failure of the tracing machinery itself (never a verdict)"""


def delta_encode(steps):
    """replace each step's full state by the top-level keys that changed"""
    prev = None
    for s_ in steps:
        full = s_["st"]
        if prev is None:
            s_["d"] = full
        else:
            s_["d"] = {k: v for k, v in full.items() if prev.get(k) != v}
        prev = full
        del s_["st"]
    return steps


def delta_decode(steps):
    cur = {}
    out = []
    for s_ in steps:
        cur = dict(cur)
        cur.update(s_["d"])
        out.append(cur)
    return out


def _same_but_queue(a, b):
    for key in a:
        if key in ("queue", "procs"):
            continue
        if a[key] != b[key]:
            return False
    return True


def mach_view(sim, cfg):
    K = cfg.get("K", 1)
    out = []
    for m in sim.cluster.machines:
        def whole(v):
            # speeds are logged in work units per tick x K (exact), -1 if not representable
            try:
                f = float(v)
            except (TypeError, ValueError):
                return -1
            return int(f) if f == int(f) else -1
        out.append({"id": str(m.id), "cpu": whole(m.cpu), "bw": whole(m.bandwidth)})
    return out


def exc_view(e):
    tb = traceback.extract_tb(e.__traceback__)
    site = ""
    c = e
    frames = list(tb)
    while getattr(c, "__cause__", None) is not None:
        c = c.__cause__
        frames += list(traceback.extract_tb(c.__traceback__))
    for fr in frames:
        if "/topsim/" in fr.filename:
            site = os.path.basename(fr.filename) + ":" + fr.name
    return {"type": type(e).__name__, "msg": str(e)[:120], "site": site}


def run(cfg, segs=None, perm_seed=None, perm_kinds=None, budget=None, full=True,
        keep_states=True, delta=False, with_queue=False):
    """segs: None -> start(); [k, u1, ..., 'end'] -> start(k), resume(u1), ...
    where 'end' means: keep resuming one step at a time until is_finished().
    budget: maximum simulated time (scaled) before the harness gives up."""
    workdir = tempfile.mkdtemp(prefix="topsim_h_")
    out = {"cfg": cfg, "segs": segs if segs is not None else [],
           "perm": perm_seed if perm_seed is not None else -1, "steps": []}
    sink_out, sink_err = io.StringIO(), io.StringIO()
    try:
        with contextlib.redirect_stdout(sink_out), contextlib.redirect_stderr(sink_err):
            sim, env, reg, proposals = build(cfg, workdir, perm_seed, perm_kinds)
            proj = Projector(sim, env, reg.plans, cfg)
            proj.proposals = proposals
            K = cfg.get("K", 1)
            state = {"rows": 0, "log": 0, "np": 0, "nd": 0, "seg": 0}
            steps = out["steps"]
            lim = budget if budget is not None else 100000

            class Budget(Exception):
                pass

            def record(lab, exc):
                st = proj.state()
                if exc is not None:
                    st["crashed"] = type(exc).__name__
                if (exc is None and lab is not None and lab["kind"] in ("END", "STOPR")
                        and steps and _same_but_queue(steps[-1]["st"], st)):
                    # no-op events (end-of-process notifications, stop residue):
                    # state verified unchanged, record dropped; keep the queue fresh
                    if "queue" in st:
                        steps[-1]["st"]["queue"] = st["queue"]
                    steps[-1]["st"]["procs"] = st["procs"]
                    return
                rec = {"t": env.ts(env.now), "lab": lab, "seg": state["seg"], "st": st}
                df = sim.monitor.df
                if len(df) > state["rows"]:
                    rec["rows"] = [row_view(df, i, env.ts) for i in range(state["rows"], len(df))]
                    state["rows"] = len(df)
                else:
                    rec["rows"] = []
                ev = sim.monitor.events
                if len(ev) > state["log"]:
                    rec["newlog"] = log_view(ev, state["log"], env.ts)
                    state["log"] = len(ev)
                else:
                    rec["newlog"] = []
                rec["prop"] = proposals[state["np"]:]
                state["np"] = len(proposals)
                rec["dcalls"] = reg.delay_calls[state["nd"]:]
                state["nd"] = len(reg.delay_calls)
                rec["exc"] = exc_view(exc) if exc is not None else {"type": "", "msg": "", "site": ""}
                rec["raised"] = env.last_raised
                rec["callexc"] = ""
                # the machines' speeds as they are now (logged when they change: a
                # machine keeps the speed the configuration gave it)
                mv = mach_view(sim, cfg)
                if mv != state.get("mach") and not (lab is not None and lab.get("kind") == "INIT"):
                    rec["mach"] = mv
                    state["mach"] = mv
                else:
                    rec["mach"] = []
                steps.append(rec)
                if exc is None and env.now * K > lim:
                    raise Budget()

            first = {"done": False}
            orig_step = env.step

            def on_event(lab, exc):
                try:
                    record(lab, exc)
                except Budget:
                    raise
                except BaseException as he:
                    raise HarnessError(repr(he)) from he

            env.on_event = on_event
            # record the initial state (after process creation) lazily: wrap step
            real_step = TracingEnvironment.step

            def step_with_init():
                if not first["done"]:
                    first["done"] = True
                    record({"kind": "INIT", "o": "", "k": 0, "n": 0}, None)
                real_step(env)

            env.step = step_with_init
            end = {"completed": False, "exc": {"type": "", "msg": "", "site": ""}, "budget": False,
                   "calls": []}
            ret = None
            try:
                if segs is None:
                    ret = sim.start()
                    end["calls"].append({"call": "start", "arg": -1, "raised": ""})
                else:
                    for i, s in enumerate(segs):
                        state["seg"] = i
                        if i == 0:
                            ret = sim.start(runtime=s)
                            end["calls"].append({"call": "start", "arg": s, "raised": ""})
                        elif s == "past":
                            sim.resume(until=env.now + 3)
                            end["calls"].append({"call": "resume", "arg": int(env.now), "raised": ""})
                        elif s == "end":
                            while not sim.is_finished():
                                sim.resume(until=env.now + 1)
                                end["calls"].append({"call": "resume", "arg": int(env.now), "raised": ""})
                        else:
                            sim.resume(until=s)
                            end["calls"].append({"call": "resume", "arg": s, "raised": ""})
                end["completed"] = bool(sim.is_finished())
            except Budget:
                end["budget"] = True
            except HarnessError:
                raise
            except BaseException as e:  # noqa
                if isinstance(e, (KeyboardInterrupt, SystemExit)):
                    raise
                end["exc"] = exc_view(e)
            # final view
            st = proj.state()
            end["t"] = env.ts(env.now)
            end["st"] = st
            df = sim.monitor.df
            end["rows"] = [row_view(df, i, env.ts) for i in range(len(df))]
            end["log"] = log_view(sim.monitor.events, 0, env.ts)
            end["loglen_at_last_step"] = state["log"]
            tt = []
            try:
                tdf = sim._generate_final_task_data()
                key_of = {str(t.id): k for k, t in proj.all_tasks.items()}
                for tid, r in tdf.iterrows():
                    o_, k_ = key_of.get(str(tid), ("", 0))
                    tt.append({"id": str(tid), "o": o_, "k": k_,
                               "est": float(r["est"]), "eft": float(r["eft"]),
                               "ast": env.ts(float(r["ast"])), "aft": env.ts(float(r["aft"])),
                               "woff": float(r["workflow_offset"]),
                               "obs": str(r["observation_id"])})
            except Exception as e:  # empty table etc.
                end["tt_exc"] = type(e).__name__
            end["tasktable"] = tt
            end["plans"] = plans_view(reg)
            out["end"] = end
            if not keep_states:
                for s_ in steps:
                    s_.pop("st", None)
            elif delta:
                delta_encode(steps)
    finally:
        shutil.rmtree(workdir, ignore_errors=True)
    return out


def _node_k(n):
    if hasattr(n, "id"):
        return task_key(n)[1]
    try:
        return int(n) + 1
    except (TypeError, ValueError):
        return 0


def plans_view(reg):
    res = []
    for o, plan in reg.plan_objs.items():
        tasks = reg.plans[o]
        g = plan.graph
        res.append({
            "o": o,
            "tasks": [{"k": task_key(t)[1], "id": str(t.id), "flops": t.flops, "data": t.task_data,
                       "pred": sorted(str(p) for p in t.pred),
                       "io": sorted([{"p": str(a), "v": b} for a, b in (t.io or {}).items()], key=lambda r: r["p"]),
                       "pm": str(t.allocated_machine_id) if t.allocated_machine_id is not None else ""}
                      for t in tasks],
            # a graph node that is not a Task (a workflow node the plan never turned
            # into a task) is reported by its raw label, offset like task numbers
            "edges": sorted([{"u": _node_k(u), "v": _node_k(v)} for u, v in g.edges()],
                            key=lambda r: (r["u"], r["v"])),
        })
    return res
