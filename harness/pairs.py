"""Pairs of executions that must coincide: pause/resume vs uninterrupted
(C11) and different interpreter hash seeds (C10)."""
import json
import os
import random
import subprocess
import sys

from . import gen, runsim, batch


def canon(tr):
    """what must coincide: the state after every event (SimPy `until`
    events and the hand-over bookkeeping of pending log entries excluded),
    the tables and the log"""
    states = []
    for s, st in zip(tr["steps"], runsim.delta_decode(tr["steps"]) if "d" in tr["steps"][0] else [x["st"] for x in tr["steps"]]):
        if s["lab"]["kind"] in ("STOP", "STOPR"):
            continue
        st = dict(st)
        st.pop("ev", None)
        st["mon"] = {"rows": st["mon"]["rows"]}
        st["queue"] = [e for e in st["queue"] if e["pid"][0] != "STOP"]
        states.append({"t": s["t"], "lab": s["lab"], "st": st, "raised": s["raised"]})
    prev = None
    for x in states:   # delta encoding keeps the comparison files small
        full = x.pop("st")
        x["d"] = full if prev is None else {k: v for k, v in full.items() if prev.get(k) != v}
        prev = full
    e = tr["end"]
    return {"states": states, "rows": e["rows"], "tasktable": e["tasktable"], "log": e["log"],
            "completed": e["completed"], "exc": e["exc"]["type"]}


def refusal_probe(cfg):
    """start() twice / resume() before start(): must raise and change nothing"""
    import contextlib
    import io
    import shutil
    import tempfile
    from .tracer import Projector
    out = []
    wd = tempfile.mkdtemp(prefix="topsim_r_")
    try:
        with contextlib.redirect_stdout(io.StringIO()), contextlib.redirect_stderr(io.StringIO()):
            sim, env, reg, props = runsim.build(cfg, wd)
            proj = Projector(sim, env, reg.plans, cfg)
            proj.proposals = props

            def view():
                st = proj.state()
                st["rows"] = len(sim.monitor.df)
                st["running"] = bool(sim.running)
                return st
            before = view()
            raised = ""
            try:
                sim.resume(until=3)
            except BaseException as e:  # noqa
                raised = type(e).__name__
            out.append({"call": "resume-before-start", "raised": raised, "expect": "RuntimeError", "before": before, "after": view()})
            sim.start(runtime=2)
            before = view()
            raised = ""
            try:
                sim.start(runtime=4)
            except BaseException as e:  # noqa
                raised = type(e).__name__
            out.append({"call": "start-twice", "raised": raised, "expect": "RuntimeError", "before": before, "after": view()})
            # ... the refused call must not get in the way of resuming
            raised = ""
            try:
                while not sim.is_finished() and env.now < 500:
                    sim.resume(until=env.now + 1)
            except Exception as e:  # noqa
                raised = type(e).__name__
            fin = view()
            out.append({"call": "resume-after-refused-start", "raised": raised, "expect": "", "before": fin, "after": fin})
            # ... and also once the simulation has run to completion
            before = view()
            raised = ""
            try:
                sim.start()
            except BaseException as e:  # noqa
                raised = type(e).__name__
            out.append({"call": "start-after-completion", "raised": raised, "expect": "RuntimeError", "before": before, "after": view()})
    finally:
        shutil.rmtree(wd, ignore_errors=True)
    return out


def seg_job(args):
    cfg, segs = args
    b = batch.serial_bound(cfg) + 5 * cfg.get("K", 1)
    tr = runsim.run(cfg, segs=segs, budget=b)
    return tr


def seg_pairs(tier, seed, workers=16):
    """(pairs for TraceEq, segmented traces for TraceSim)"""
    from concurrent.futures import ProcessPoolExecutor
    rng = random.Random(f"seg-{seed}")
    ncfg = 10 if tier == "quick" else 60
    algs = ["batch", "queue", "plan", "greedy", "batch"]
    cfgs = [gen.random_cfg(rng, alg=algs[i % len(algs)], family="roomy" if i % 4 else "tight") for i in range(ncfg)]
    # ... and some whose tasks are lengthened by a real, seeded DelayModel (the
    # draws are not part of the specification: these runs are compared as pairs
    # only, they are not handed to TraceSim)
    drawn = set()
    for j in range(max(2, ncfg // 4)):
        c = fan_cfg(rng, ["batch", "queue"][j % 2])
        c.pop("extra", None)
        c["realDelay"] = {"prob": rng.choice([0.3, 0.5]), "dist": rng.choice(["normal", "poisson", "uniform"]),
                          "degree": rng.choice(["MID", "HIGH"]), "seed": rng.choice([20, 3, 0])}
        cfgs.append(gen.normalise(c))
        drawn.add(len(cfgs) - 1)
    with ProcessPoolExecutor(max_workers=workers) as ex:
        plains = list(ex.map(seg_job, [(c, None) for c in cfgs], chunksize=2))
        jobs, owner = [], []
        for ci, (c, p) in enumerate(zip(cfgs, plains)):
            if not p["end"]["completed"]:
                continue
            T = p["end"]["t"] // c.get("K", 1)
            ks = list(range(1, T))
            if tier == "quick" and len(ks) > 5:
                ks = sorted(rng.sample(ks, 5))
            for k in ks:
                jobs.append((c, [k, "end"]))
                owner.append(ci)
            for _ in range(2 if tier == "quick" else 6):
                if T < 4:
                    break
                cuts = sorted(rng.sample(range(1, T), min(rng.randint(2, 4), T - 1)))
                jobs.append((c, cuts + ["end"]))
                owner.append(ci)
        # running on after everything is done (a fixed runtime longer than the work,
        # a resume past completion): judged as traces only
        past = []
        for ci, (c, p) in enumerate(zip(cfgs, plains)):
            if p["end"]["completed"] and ci not in drawn:
                T = p["end"]["t"] // c.get("K", 1)
                past.append((c, [T + 3]))
                past.append((c, [max(1, T // 2), "end", "past"]))
        segd = list(ex.map(seg_job, jobs, chunksize=2))
        pastd = list(ex.map(seg_job, past, chunksize=2))
    pairs, traces = [], []
    for tr in pastd:
        t2 = dict(tr)
        t2["steps"] = runsim.delta_encode([dict(s) for s in tr["steps"]])
        t2["tag"] = "seg"
        traces.append(t2)
    canon_plain = {}
    for ci, tr in zip(owner, segd):
        if ci not in canon_plain:
            canon_plain[ci] = canon(plains[ci])
        pairs.append({"a": canon_plain[ci], "b": canon(tr), "refusals": [],
                      "what": {"cfg": cfgs[ci], "segs": tr["segs"]}})
        if ci in drawn:
            continue
        t2 = dict(tr)
        t2["steps"] = runsim.delta_encode([dict(s) for s in tr["steps"]])
        t2["tag"] = "seg"
        traces.append(t2)
    for ci in sorted(canon_plain)[: (4 if tier == "quick" else 20)]:
        pairs.append({"a": canon_plain[ci], "b": canon_plain[ci], "refusals": refusal_probe(cfgs[ci]),
                      "what": {"cfg": cfgs[ci], "segs": "refusals"}})
    return pairs, traces


# ---------------------------------------------------------------- C10
def fan_cfg(rng, alg):
    """configurations on which the iteration order of the ready-task set is
    observable: more ready tasks than machines, heterogeneous machines"""
    nm = rng.choice([1, 2, 2, 3, 5, 6])
    machines = [{"id": f"m{i}", "cpu": rng.choice([1, 2, 3]), "bw": 1} for i in range(nm)]
    obs = []
    for i in range(rng.choice([1, 2, 2, 3])):
        width = rng.randint(3, 6)
        nodes = [{"k": 1, "comp": rng.choice([1, 2]), "data": 0}]
        edges = []
        for k in range(2, width + 2):
            nodes.append({"k": k, "comp": rng.choice([1, 2, 3, 4, 6]), "data": rng.choice([0, 0, 2])})
            edges.append({"u": 1, "v": k, "vol": rng.choice([0, 1, 2])})
        if rng.random() < 0.5:
            nodes.append({"k": width + 2, "comp": 2, "data": 0})
            for k in range(2, width + 2):
                edges.append({"u": k, "v": width + 2, "vol": rng.choice([0, 1])})
        obs.append({"o": "abc"[i], "est": rng.randint(0, 2) + 12 * i * rng.randint(0, 1), "dur": rng.randint(1, 2), "demand": 1, "ing": 1,
                    "rate": 1, "wf": {"nodes": nodes, "edges": edges}})
    cfg = {"machines": machines, "arrays": 2, "maxIngest": 1, "hotCap": 60, "coldCap": 20, "hotRate": 3,
           "coldRate": 2, "obs": obs, "alg": alg, "parts": 1, "minPer": 1}
    if len(machines) >= 2 and len(obs) >= 2 and rng.random() < 0.4:
        # a single array handed from one observation to the next in the very step
        # the first one ends (enough ingest machines: only the array is contended)
        cfg["arrays"], cfg["maxIngest"] = 1, 2
        # ... and machines to spare, so that a free one exists at the hand-over
        cfg["machines"] = machines + [{"id": f"m{len(machines) + i}", "cpu": 1, "bw": 1} for i in range(8)]
        t = rng.randint(0, 1)
        for o in obs:
            o["est"] = t
            t += o["dur"]
    if alg in ("plan", "greedy"):
        cfg["plan"] = gen.static_plan(cfg, rng)
        if rng.random() < 0.6:          # equal est: ties decided by set order
            for a in cfg["plan"]:
                a["eft"] = a["eft"] - a["est"]
                a["est"] = 0
    r = rng.random()
    if r < 0.3:
        cfg["extra"] = [{"o": o["o"], "k": n["k"], "x": 1} for o in obs for n in o["wf"]["nodes"] if rng.random() < 0.3]
    elif r < 0.6 and alg in ("batch", "queue"):
        cfg["realDelay"] = {"prob": rng.choice([0.3, 0.5, 1.0]), "dist": rng.choice(["normal", "poisson", "uniform"]),
                            "degree": rng.choice(["LOW", "MID", "HIGH"]), "seed": rng.choice([20, 3, 0])}
    return gen.normalise(cfg)


def hash_pairs(tier, seed, workers=16):
    import shutil
    import tempfile
    from concurrent.futures import ThreadPoolExecutor
    rng = random.Random(f"hash-{seed}")
    ncfg = 16 if tier == "quick" else 120
    nseeds = 4 if tier == "quick" else 8
    algs = ["batch", "queue", "plan", "batch", "queue", "greedy"]
    cfgs = [fan_cfg(rng, algs[i % len(algs)]) for i in range(ncfg)]
    # the delay model may also be handed to the Simulation (which batch planning
    # does not consult); the first simulation of the process does so
    for ci, c in enumerate(cfgs):
        if c["alg"] in ("batch", "queue") and (ci == 0 or (ci % 5 == 0 and "realDelay" not in c)):
            c["realDelay"] = {"prob": 1.0, "dist": "normal", "degree": "HIGH", "seed": 20, "viaSim": True}
            c.pop("extra", None)
            cfgs[ci] = gen.normalise(c)
    hseeds = [0] + [rng.randint(1, 4_000_000) for _ in range(nseeds - 1)]
    wd = tempfile.mkdtemp(prefix="topsim_hash_")
    try:
        jobs = []
        for ci, c in enumerate(cfgs):
            cp = os.path.join(wd, f"cfg{ci}.json")
            with open(cp, "w") as f:
                json.dump(c, f)
            for hs in hseeds:
                jobs.append((ci, hs, cp, os.path.join(wd, f"out{ci}_{hs}.json")))

        def child(j):
            ci, hs, cp, op = j
            env = dict(os.environ)
            env["PYTHONHASHSEED"] = str(hs)
            env["PYTHONDONTWRITEBYTECODE"] = "1"
            r = subprocess.run([sys.executable, "-m", "harness.pairs", cp, op], cwd=os.path.dirname(os.path.dirname(os.path.abspath(__file__))),
                               env=env, stdout=subprocess.PIPE, stderr=subprocess.PIPE, text=True)
            if r.returncode != 0:
                raise RuntimeError("hash-seed child failed: " + r.stderr[-2000:])
            with open(op) as f:
                return json.load(f)
        with ThreadPoolExecutor(max_workers=workers) as ex:
            outs = list(ex.map(child, jobs))
        base = {}
        pairs = []
        for (ci, hs, cp, op), o in zip(jobs, outs):
            if hs == 0:
                base[ci] = o
        for (ci, hs, cp, op), o in zip(jobs, outs):
            if hs != 0:
                pairs.append({"a": base[ci], "b": o, "refusals": [],
                              "what": {"cfg": cfgs[ci], "hashseed": hs}})
        # in-process repetition (every configuration: state that survives a run
        # inside the interpreter must not influence the next one)
        for ci in range(ncfg):
            t1 = canon(runsim.run(cfgs[ci], budget=batch.serial_bound(cfgs[ci]) + 5))
            t2 = canon(runsim.run(cfgs[ci], budget=batch.serial_bound(cfgs[ci]) + 5))
            pairs.append({"a": t1, "b": t2, "refusals": [], "what": {"cfg": cfgs[ci], "hashseed": "same-process"}})
            # ... and a fresh interpreter gives what this process gives after all
            # the simulations it has already run
            pairs.append({"a": base[ci], "b": t1, "refusals": [],
                          "what": {"cfg": cfgs[ci], "hashseed": "fresh process vs. after earlier simulations"}})
        return pairs
    finally:
        shutil.rmtree(wd, ignore_errors=True)


def hash_child(cfg_path, out_path):
    with open(cfg_path) as f:
        cfg = json.load(f)
    tr = runsim.run(cfg, budget=batch.serial_bound(cfg) + 5 * cfg.get("K", 1))
    with open(out_path, "w") as f:
        json.dump(canon(tr), f)


if __name__ == "__main__":
    hash_child(sys.argv[1], sys.argv[2])
