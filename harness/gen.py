"""Configuration families: normalisation, random generation (VERIF_SEED)."""
import math
import random


def normalise(cfg):
    c = dict(cfg)
    c.setdefault("K", 1)
    c.setdefault("parts", 1)
    c.setdefault("minPer", 1)
    c["split"] = c.get("split") or []
    c.setdefault("extra", [])
    c.setdefault("plan", [])
    c.setdefault("advRounds", 0)
    c.setdefault("advProv", 0)
    c.setdefault("perm", [])
    c.setdefault("adv", [])
    c.setdefault("api", False)
    est = {(a["o"], a["k"]): a["est"] for a in c["plan"]}
    for ob in c["obs"]:
        if not c.get("fracStart"):
            ob["estT"] = ob["est"] * c["K"]
        for n in ob["wf"]["nodes"]:
            if n.get("data") is None:
                n["data"] = 0
        # order of plan.tasks: topological order, stably sorted by est
        # (static plans only; batch plans keep the topological order)
        to = topo_order(ob["wf"])
        ob["torder"] = sorted(to, key=lambda k: est.get((ob["o"], k), 0))
    return c


def lcm(a, b):
    return a * b // math.gcd(a, b)


def topo_order(wf):
    """networkx.topological_sort order (generation by generation, insertion
    order inside a generation) for a graph built from wf in list order."""
    nodes = [n["k"] for n in wf["nodes"]]
    indeg = {k: 0 for k in nodes}
    succ = {k: [] for k in nodes}
    for e in wf["edges"]:
        indeg[e["v"]] += 1
        succ[e["u"]].append(e["v"])
    zero = [k for k in nodes if indeg[k] == 0]
    out = []
    while zero:
        gen, zero = zero, []
        for k in gen:
            out.append(k)
            for v in succ[k]:
                indeg[v] -= 1
                if indeg[v] == 0:
                    zero.append(v)
    return out


def static_plan(cfg, rng):
    """random task -> machine assignment, est/eft by list scheduling"""
    plan = []
    mach = {m["id"]: m for m in cfg["machines"]}
    for ob in cfg["obs"]:
        wf = ob["wf"]
        nodes = {n["k"]: n for n in wf["nodes"]}
        preds = {k: [] for k in nodes}
        for e in wf["edges"]:
            preds[e["v"]].append((e["u"], e["vol"]))
        free = {m: 0 for m in mach}
        eft, where = {}, {}
        # an unusual but legal plan: everything on one machine, parallel branches
        # booked for overlapping slots while the other machines stay idle in the
        # plan (a plan-following policy then serialises them on that machine)
        stack = len(mach) >= 2 and rng.random() < 0.12
        for k in topo_order(wf):
            m = sorted(mach)[0] if stack else rng.choice(sorted(mach))
            rt = max(nodes[k]["comp"] // mach[m]["cpu"], nodes[k]["data"] // mach[m]["bw"], 1)
            est = 0 if stack else free[m]
            for (p, vol) in preds[k]:
                arr = eft[p] + (0 if where[p] == m else -(-vol // mach[m]["bw"]))
                est = max(est, arr)
            eft[k], where[k] = est + rt, m
            free[m] = eft[k]
            plan.append({"o": ob["o"], "k": k, "m": m, "est": est, "eft": est + rt})
    if rng.random() < 0.35:
        # a conservative plan in absolute times: slack in every task window and
        # windows far in the future (a task is then flagged as delayed only by
        # the comparison of its real and its lengthened runtime)
        slack = rng.randint(1, 2)
        t = 60
        for a in sorted(plan, key=lambda a: (a["o"], a["est"], a["k"])):
            d = a["eft"] - a["est"] + slack
            a["est"], a["eft"] = t, t + d
            t += d
    return plan


def relabel(rng, wf):
    """the same DAG with its node numbers permuted (node numbering of a
    workflow file need not be topological)"""
    ks = [n["k"] for n in wf["nodes"]]
    perm = ks[:]
    rng.shuffle(perm)
    f = dict(zip(ks, perm))
    nodes = sorted(({**n, "k": f[n["k"]]} for n in wf["nodes"]), key=lambda n: n["k"])
    edges = [{"u": f[e["u"]], "v": f[e["v"]], "vol": e["vol"]} for e in wf["edges"]]
    return {"nodes": nodes, "edges": edges}


def random_wf(rng, maxn=4, heavy=False):
    wf = _random_wf(rng, maxn, heavy)
    wf = relabel(rng, wf) if rng.random() < 0.3 else wf
    if rng.random() < 0.5:
        wf["sparse"] = True       # nodes without data demand omit the key altogether
    if rng.random() < 0.4:
        wf["header"] = {"time": rng.choice([True, False, "false"]), "generator": {"name": "harness"}}
    return wf


def _random_wf(rng, maxn=4, heavy=False):
    n = rng.randint(1, maxn)
    nodes = [{"k": k, "comp": rng.choice([0, 1, 2, 3, 4, 6] if not heavy else [2, 4, 6, 9]),
              "data": rng.choice([0, 0, 0, 1, 2, 4])} for k in range(1, n + 1)]
    edges = []
    for u in range(1, n + 1):
        for v in range(u + 1, n + 1):
            if rng.random() < 0.45:
                edges.append({"u": u, "v": v, "vol": rng.choice([0, 1, 2, 3, 4])})
    return {"nodes": nodes, "edges": edges}


def join_wf(rng):
    """join-heavy DAG: several parents feeding a join over edges of different
    (also non-divisible) volumes, plus a tail"""
    if rng.random() < 0.15:
        # wide fan: many tasks become ready in one round (ids with 1 and 2 digits)
        n = rng.randint(12, 13)
        nodes = [{"k": k, "comp": rng.choice([1, 2, 3]), "data": 0} for k in range(1, n + 1)]
        edges = [{"u": 1, "v": v, "vol": rng.choice([0, 1, 2])} for v in range(2, n + 1)]
        return {"nodes": nodes, "edges": edges, "wide": True}
    if rng.random() < 0.3:
        # steered shape: two branches that tend to run back-to-back on one machine
        # while an independent long task keeps another machine busy, then a join
        # whose incoming edges have very different volumes
        a, b, c_ = rng.randint(1, 3), rng.randint(2, 4), rng.randint(1, 3)
        big = rng.randint(a + b + c_ - 1, a + b + c_ + 2)
        nodes = [{"k": 1, "comp": a, "data": 0}, {"k": 2, "comp": big, "data": 0},
                 {"k": 3, "comp": b, "data": 0}, {"k": 4, "comp": c_, "data": 0},
                 {"k": 5, "comp": rng.randint(1, 3), "data": 0}]
        v1, v2 = rng.randint(4, 8), rng.randint(0, 2)
        if rng.random() < 0.5:
            v1, v2 = v2, v1
        edges = [{"u": 1, "v": 3, "vol": rng.randint(0, 1)}, {"u": 1, "v": 4, "vol": rng.randint(0, 1)},
                 {"u": 3, "v": 5, "vol": v1}, {"u": 4, "v": 5, "vol": v2}]
        return {"nodes": nodes, "edges": edges, "steered": True}
    if rng.random() < 0.2:
        # a heavy shortcut edge next to a light two-step path: the input that
        # arrives last comes from the grandparent, not from the parent
        nodes = [{"k": 1, "comp": rng.randint(1, 2), "data": 0}, {"k": 2, "comp": 1, "data": 0},
                 {"k": 3, "comp": rng.randint(2, 5), "data": 0}, {"k": 4, "comp": rng.randint(1, 3), "data": 0}]
        edges = [{"u": 1, "v": 2, "vol": rng.randint(0, 1)}, {"u": 2, "v": 4, "vol": 0},
                 {"u": 1, "v": 4, "vol": rng.randint(6, 8)}]
        if rng.random() < 0.5:
            edges.append({"u": 3, "v": 4, "vol": rng.randint(0, 2)})
        return {"nodes": nodes, "edges": edges}
    n = rng.randint(4, 7) if rng.random() < 0.75 else rng.randint(11, 13)
    nodes = [{"k": k, "comp": rng.choice([1, 2, 3, 4, 6, 8]), "data": rng.choice([0, 0, 0, 2, 5])}
             for k in range(1, n + 1)]
    edges = []
    for v in range(2, n + 1):
        for u in range(1, v):
            if rng.random() < (0.7 if v >= n - 1 else (0.3 if n <= 7 else 0.15)):
                edges.append({"u": u, "v": v, "vol": rng.choice([0, 1, 2, 3, 5, 6, 7])})
    return {"nodes": nodes, "edges": edges}


def random_cfg(rng, alg=None, family="roomy", nobs=None, maxn=4):
    if family == "units":
        # the same kind of configuration written with a coarser timestep unit
        # (4 seconds per step) and planned starts that fall between two steps
        c = random_cfg(rng, alg=alg, family="roomy", nobs=nobs, maxn=maxn)
        c["unit"] = 4
        c["fracStart"] = True
        c["K"] = lcm(4, c["K"])
        for o in c["obs"]:
            o["estT"] = o["est"] * c["K"] + rng.choice([0, 1, 2, 3]) * (c["K"] // 4)
        return normalise(c)
    if family == "bigcap":
        # realistic magnitudes: capacities around 10^9 with tiny data volumes
        c = random_cfg(rng, alg=alg, family="roomy", nobs=nobs or rng.choice([1, 2]), maxn=3)
        c["hotCap"] = 2_000_000_000 - rng.randint(0, 5)
        c["coldCap"] = 1_000_000_000 + rng.randint(0, 5)
        for o in c["obs"]:
            o["rate"] = 1
        c["hotRate"] = 1_000_000
        c["coldRate"] = rng.choice([1, 2, 500_000])
        return normalise(c)
    if family == "overrate":
        # one observation produces data faster than the hot buffer may ingest:
        # the ingest must be rejected with an error before anything is deposited
        c = random_cfg(rng, alg=alg, family="roomy", nobs=nobs or rng.choice([1, 2]), maxn=3)
        bad = rng.randrange(len(c["obs"]))
        if len(c["obs"]) == 2 and len(c["machines"]) >= 2 and rng.random() < 0.5:
            # the over-rate observation starts in the same step as a compliant one,
            # is listed after it and does not outlive it
            bad = 1
            a, b = c["obs"]
            b["est"] = a["est"]
            b["dur"] = rng.randint(1, a["dur"])
            a["demand"] = b["demand"] = a["ing"] = b["ing"] = 1
            c["arrays"] = max(c["arrays"], 2)
            c["maxIngest"] = max(c["maxIngest"], 2)
            if c["alg"] == "batch":
                c["split"] = []
        c["obs"][bad]["rate"] = c["hotRate"] + rng.randint(1, 2)
        vols = [o["rate"] * o["dur"] for o in c["obs"]]
        c["hotCap"] = (sum(vols) * 10) // 6 + 3
        c["coldCap"] = max(vols) + 2
        return normalise(c)
    if family == "b2b":
        # sub-array observations that start exactly when others finish, with
        # spare arrays, spare machines and a generous ingest limit
        c = random_cfg(rng, alg=alg, family="roomy", nobs=3, maxn=3)
        nm = rng.randint(4, 5)
        c["machines"] = [{"id": f"m{i}", "cpu": rng.choice([1, 2]), "bw": 1} for i in range(nm)]
        c["K"] = 1
        c["arrays"] = rng.randint(4, 6)
        c["maxIngest"] = rng.randint(3, nm)
        t = rng.randint(0, 1)
        for i, o in enumerate(c["obs"]):
            o["demand"], o["ing"] = rng.randint(1, 2), 1
            o["dur"] = rng.randint(1, 3)
            o["est"] = t
            if rng.random() < 0.7:
                t += o["dur"]          # next one starts when this one finishes
            else:
                t += rng.randint(0, o["dur"])
        vols = [o["rate"] * o["dur"] for o in c["obs"]]
        c["hotCap"] = (sum(vols) * 10) // 6 + 3
        c["coldCap"] = max(vols) + 2
        if c["alg"] == "batch":
            c["parts"], c["minPer"], c["split"] = rng.choice([1, 2]), 1, []
        if c["alg"] in ("plan", "greedy"):
            c["plan"] = static_plan(c, rng)
        return normalise(c)
    if family == "join":
        c = random_cfg(rng, alg=alg, family="roomy", nobs=nobs or rng.choice([1, 1, 2]), maxn=maxn)
        nm = rng.randint(2, 3)
        # bandwidths are powers of two: volume / bandwidth is then an exact binary
        # fraction, so that topsim's floating-point event times order exactly as
        # the specification's rational times do
        c["machines"] = [{"id": f"m{i}", "cpu": rng.choice([1, 2, 3]), "bw": rng.choice([1, 1, 2, 4])}
                         for i in range(nm)]
        K = 1
        for m in c["machines"]:
            K = lcm(K, m["bw"])
        c["K"] = K
        c["maxIngest"] = min(c["maxIngest"], nm)
        for o in c["obs"]:
            o["wf"] = join_wf(rng)
            o["ing"] = min(o["ing"], c["maxIngest"])
            if o["wf"].pop("wide", False):
                c.setdefault("_wide", []).append(o["o"])
                if c["alg"] in ("plan", "greedy") and rng.random() < 0.6:
                    # a cluster with two-digit machine numbers
                    c["machines"] = [{"id": f"m{i}", "cpu": rng.choice([1, 2, 3]), "bw": 1} for i in range(12)]
                    c["K"] = 1
            if o["wf"].pop("steered", False):
                c["machines"] = [{"id": "m0", "cpu": 1, "bw": c["machines"][0]["bw"]},
                                 {"id": "m1", "cpu": 1, "bw": c["machines"][0]["bw"]}]
                c["K"] = c["machines"][0]["bw"]
                c["maxIngest"] = min(c["maxIngest"], 2)
                for o2 in c["obs"]:
                    o2["ing"] = min(o2["ing"], c["maxIngest"])
        c["extra"] = [e for e in c["extra"] if any(n["k"] == e["k"] for o in c["obs"] if o["o"] == e["o"] for n in o["wf"]["nodes"])]
        if c["alg"] == "batch":
            c["parts"] = min(c["parts"], nm)
            c["minPer"] = min(c["minPer"], max(1, nm // c["parts"]))
            c["split"] = []
        if c["alg"] in ("plan", "greedy"):
            c["plan"] = static_plan(c, rng)
            for a in c["plan"]:
                if a["o"] in c.get("_wide", []) and a["k"] > 1:
                    # all children of the fan planned to start together
                    a["eft"], a["est"] = a["eft"] - a["est"] + 1, 1
        c.pop("_wide", None)
        return normalise(c)
    nm = rng.randint(1, 4)
    machines = [{"id": f"m{i}", "cpu": rng.choice([1, 1, 2, 3]), "bw": rng.choice([1, 1, 1, 2])}
                for i in range(nm)]
    K = 1
    for m in machines:
        K = lcm(K, m["bw"])
    arrays = rng.randint(2, 4)
    max_ingest = rng.randint(1, nm)
    nobs = nobs or rng.choice([1, 2, 2, 3])
    obs = []
    for i in range(nobs):
        dur = rng.randint(1, 3)
        rate = rng.randint(1, 3)
        obs.append({"o": "abc"[i], "est": rng.randint(0, 5), "dur": dur,
                    "demand": rng.randint(1, arrays), "ing": rng.randint(1, max_ingest),
                    "rate": rate, "wf": random_wf(rng, maxn)})
    if family == "roomy" and rng.random() < 0.12:
        # an observation that produces no data at all (a data product rate
        # below half a unit is rounded to 0 by the configuration parser)
        obs[rng.randrange(len(obs))]["rate"] = 0
        if rng.random() < 0.5:
            # nothing but data-less observations due at the very first step
            if rng.random() < 0.5:
                del obs[1:]
            for o in obs:
                o["rate"], o["est"] = 0, 0
    if family == "roomy" and len(obs) > 1 and rng.random() < 0.15:
        # a quiet gap: everything before the last observation has drained when it falls due
        obs[-1]["est"] += rng.randint(8, 14)
    if len(obs) > 1 and rng.random() < 0.25:
        # observation names may contain underscores and extend one another
        obs[1]["o"] = rng.choice(["b_x", "a_x", "a_2"])
    if len(obs) > 1 and rng.random() < 0.3:
        # two pipelines using one and the same workflow
        import copy as _copy
        obs[1]["wf"] = _copy.deepcopy(obs[0]["wf"])
    vols = [o["rate"] * o["dur"] for o in obs]
    if family == "roomy":
        hot = (sum(vols) * 10) // 6 + 2 + rng.randint(0, 3)
        cold = max(vols) + rng.randint(0, 5)
    elif family == "tight":
        # observations follow one another (no overlapping ingest), each fills
        # 60% of the hot buffer: admission is refused until the previous
        # workflow has completed, but the 60% threshold is never exceeded
        t = rng.randint(0, 2)
        for o in obs:
            o["rate"], o["dur"] = 3, 2
            o["est"] = t
            t += 2 + rng.randint(0, 2)
        hot = 10
        cold = 6 + rng.randint(0, 3)
        realtime = rng.random() < 0.3     # a non-positive cold rate means 'real time' transfers
    elif family == "overlap":
        # two observations whose ingest windows overlap and whose joint volume
        # exceeds the hot buffer (each fits on its own)
        for i, o in enumerate(obs):
            o["rate"], o["dur"], o["est"] = 3, 2, min(i, 1) * rng.randint(0, 1)
            o["demand"], o["ing"] = 1, 1
        hot, cold = 10, 6 + rng.randint(0, 3)
        arrays = max(arrays, len(obs))
        max_ingest = max(max_ingest, min(nm, len(obs)))
    else:  # "tier": may cross the threshold
        hot = max(vols) + 1 + rng.randint(0, max(vols))
        cold = max(vols) + rng.randint(0, sum(vols))
    cfg = {"K": K, "machines": machines, "arrays": arrays, "maxIngest": max_ingest,
           "hotCap": hot, "coldCap": cold,
           "hotRate": max(1, max(o["rate"] for o in obs) + rng.randint(0, 2)),
           "coldRate": (-1 if ((family == "tight" and realtime) or (family == "tier" and rng.random() < 0.2))
                        else rng.randint(1, 3)), "obs": obs}
    alg = alg or rng.choice(["batch", "batch", "queue", "plan", "greedy"])
    cfg["alg"] = alg
    if alg == "batch":
        cfg["parts"] = rng.choice([1, 1, 2]) if nm >= 2 else 1
        cap = max(1, nm // cfg["parts"])
        cfg["minPer"] = rng.randint(1, cap)
        if rng.random() < 0.2:
            cfg["split"] = []
            for o in obs:
                mn = rng.randint(1, nm)
                cfg["split"].append({"o": o["o"], "min": mn, "max": rng.randint(mn, nm)})
            cfg["minPer"] = 1
    if alg in ("plan", "greedy"):
        cfg["plan"] = static_plan(cfg, rng)
    extra = []
    if rng.random() < 0.5:
        for o in obs:
            for n in o["wf"]["nodes"]:
                if rng.random() < 0.35:
                    extra.append({"o": o["o"], "k": n["k"], "x": rng.choice([1, 1, 2])})
    if rng.random() < 0.2:
        cfg["decoy"] = rng.randint(1, 4)      # another simulation paused mid-run in the same process
    if rng.random() < 0.25:
        cfg["fracRate"] = True               # data rates spelled with a fraction in the file
    if rng.random() < 0.2:
        cfg["prelude"] = True                # an earlier simulation with the same policy objects, larger cluster
    cfg["extra"] = extra
    if alg == "adv":
        cfg["advRounds"] = rng.randint(1, 4)
        cfg["advSeed"] = rng.randint(0, 10 ** 6)
        cfg["advProv"] = rng.choice([0, 0, 1, 2])
    if rng.random() < 0.12:
        # machine names with a category prefix and per-category numbering
        # (cat0_m0, cat1_m0, cat0_m1, ...): the whole name is the machine's identity
        ren = {m["id"]: "cat%d_m%d" % (i % 2, i // 2) for i, m in enumerate(cfg["machines"])}
        for m in cfg["machines"]:
            m["id"] = ren[m["id"]]
        for a in cfg.get("plan", []):
            a["m"] = ren.get(a["m"], a["m"])
    return normalise(cfg)


def family(seed, n, **kw):
    rng = random.Random(seed)
    return [random_cfg(rng, **kw) for _ in range(n)]
