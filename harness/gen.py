"""Configuration families: normalisation, random generation (VERIF_SEED)."""
import math
import random


def normalise(cfg):
    c = dict(cfg)
    c.setdefault("K", 1)
    c.setdefault("parts", 1)
    c.setdefault("minPer", 1)
    c["split"] = c.get("split") or []
    c.setdefault("extra", [])
    c.setdefault("plan", [])
    c.setdefault("advRounds", 0)
    c.setdefault("perm", [])
    c.setdefault("adv", [])
    for ob in c["obs"]:
        for n in ob["wf"]["nodes"]:
            if n.get("data") is None:
                n["data"] = 0
    return c
