"""Histories of buffer tier moves executed on a real topsim Buffer (C18).
Same trace format as simulations: external calls are CALL records."""
import contextlib
import io
import random
import shutil
import tempfile

import pandas as pd

from . import gen
from .tracer import TracingEnvironment, Projector
from .runsim import materialise, exc_view, HarnessError, delta_encode
from .api_cluster import _Stub
from simpy.core import StopSimulation


def buf_cfg(hot_cap, cold_cap, hot_rate, cold_rate, sizes):
    def wf():
        return {"nodes": [{"k": 1, "comp": 1, "data": 0}], "edges": []}
    obs = [{"o": "abc"[i], "est": 0, "dur": s, "demand": 1, "ing": 1, "rate": 1, "wf": wf()}
           for i, s in enumerate(sizes)]
    cfg = {"machines": [{"id": "m0", "cpu": 1, "bw": 1}], "arrays": 4, "maxIngest": 1,
           "hotCap": hot_cap, "coldCap": cold_cap, "hotRate": hot_rate, "coldRate": cold_rate,
           "obs": obs, "alg": "queue", "api": True}
    return gen.normalise(cfg)


def scenarios(tier, seed):
    """(cfg, ops): sizes 1..6, rates 1..3 on each side (either slower),
    both directions, round trips, destination with / without room"""
    out = []
    tick = {"op": "Tick"}
    sizes = (1, 2, 3, 5, 6) if tier == "quick" else (1, 2, 3, 4, 5, 6)
    for size in sizes:
        for hr in (1, 2, 3):
            for cr in (1, 2, 3, -1):        # -1: a 'real time' cold tier (no rate limit)
                for cold_cap in (size - 1, size, size + 3):
                    if cold_cap < 1:
                        continue
                    cfg = buf_cfg(12, cold_cap, hr, cr, [size])
                    n = size + 2
                    out.append((cfg, [{"op": "StoreHot", "o": "a"}, {"op": "H2C"}] + [tick] * n
                                + [{"op": "C2H"}] + [tick] * n))
                for hot_cap in (size + 1, 2 * size + 1):
                    cfg = buf_cfg(hot_cap, 12, hr, cr, [size, size])
                    n = size + 2
                    # hot holds b as well: room for the return of a or not
                    out.append((cfg, [{"op": "StoreCold", "o": "a"}, {"op": "StoreHot", "o": "b"}, {"op": "C2H"}]
                                + [tick] * n + [{"op": "H2C"}] + [tick] * n))
    # two observations in one tier: partial last steps, refusal decided by the
    # observation that is actually moved (the newest stored one)
    for s1, s2 in ((6, 7), (4, 5), (2, 3), (5, 3)):
        for hr, cr in ((3, 3), (2, 3), (3, 2), (1, 3)):
            n = max(s1, s2) + 2
            cfg = buf_cfg(20, 30, hr, cr, [s1, s2])
            out.append((cfg, [{"op": "StoreCold", "o": "a"}, {"op": "StoreCold", "o": "b"}, {"op": "C2H"}]
                        + [tick] * n + [{"op": "C2H"}] + [tick] * n + [{"op": "H2C"}] + [tick] * n))
            for cold_cap in (min(s1, s2), max(s1, s2) - 1 if max(s1, s2) - 1 >= 1 else 1, max(s1, s2)):
                cfg = buf_cfg(20, cold_cap, hr, cr, [s1, s2])
                out.append((cfg, [{"op": "StoreHot", "o": "a"}, {"op": "StoreHot", "o": "b"}, {"op": "H2C"}]
                            + [tick] * n + [{"op": "H2C"}] + [tick] * n))
    # a move while another observation is still being ingested
    for s1, s2 in ((3, 5), (6, 4), (2, 6)):
        for hr, cr in ((3, 3), (3, 1), (2, 3)):
            cfg = buf_cfg(20, 12, hr, cr, [s1, s2])
            for lead in (0, 1, 2):
                out.append((cfg, [{"op": "StoreHot", "o": "a"}, {"op": "StartIngest", "o": "b"}] + [tick] * lead
                            + [{"op": "H2C"}] + [tick] * (max(s1, s2) + 3)))
    rng = random.Random(f"buf-{seed}")
    for _ in range(40 if tier == "quick" else 600):
        s1, s2 = rng.randint(1, 6), rng.randint(1, 6)
        cfg = buf_cfg(rng.randint(max(s1, s2) + 1, 14), rng.randint(1, 14), rng.randint(1, 3),
                      rng.choice([1, 2, 3, 1, 2, 3, -1]), [s1, s2])
        ops = [{"op": rng.choice(["StoreHot", "StoreCold"]), "o": "a"}, {"op": rng.choice(["StoreHot", "StoreCold"]), "o": "b"}]
        for _ in range(rng.randint(1, 4)):
            ops.append({"op": rng.choice(["H2C", "C2H"])})
            # one move at a time (the buffer has a single transfer slot per tier;
            # concurrent moves are outside the property's quantifier)
            ops += [tick] * rng.randint(8, 10)
        out.append((cfg, ops))
    return out


def run_history(args):
    cfg, seq = args
    from topsim.core.buffer import Buffer
    from topsim.core.config import Config
    from topsim.core.cluster import Cluster
    from topsim.core.instrument import Observation, RunStatus
    from topsim.core.scheduler import ScheduleStatus

    workdir = tempfile.mkdtemp(prefix="topsim_bapi_")
    out = {"cfg": cfg, "segs": [], "perm": -1, "steps": [], "tag": "bufapi", "ops": seq}
    try:
        with contextlib.redirect_stdout(io.StringIO()), contextlib.redirect_stderr(io.StringIO()):
            path = materialise(cfg, workdir)
            env = TracingEnvironment(scale=1)
            conf = Config(path)
            cluster = Cluster(env, conf)
            buf = Buffer(env, cluster, None, conf)
            sim = _Stub()
            sim.cluster, sim.buffer = cluster, buf
            ins = _Stub()
            ins.observations = []
            for ob in cfg["obs"]:
                o = Observation(ob["o"], 0, ob["dur"], 1, "wf", ob["rate"])
                ins.observations.append(o)
            byname = {o.name: o for o in ins.observations}
            ins.events, ins.telescope_use, ins.telescope_status = [], 0, False
            ins.is_idle = lambda: False
            sch = _Stub()
            sch.observation_queue, sch.provision_ingest, sch.events = [], 0, []
            sch.schedule_status, sch.delay_offset = ScheduleStatus.ONTIME, 0
            sch.is_idle = lambda: True
            mon = _Stub()
            mon.df, mon.events = pd.DataFrame(), pd.DataFrame()
            sim.instrument, sim.scheduler, sim.monitor = ins, sch, mon
            sim.is_finished = lambda: False
            env.sim = sim
            proj = Projector(sim, env, {}, cfg)
            steps = out["steps"]

            def record(lab, exc, raised="", callexc=""):
                st = proj.state()
                if exc is not None:
                    st["crashed"] = type(exc).__name__
                if (exc is None and lab["kind"] in ("END", "STOPR") and steps
                        and all(steps[-1]["st"][k] == st[k] for k in st if k not in ("queue", "procs"))):
                    steps[-1]["st"]["queue"] = st["queue"]
                    steps[-1]["st"]["procs"] = st["procs"]
                    return
                steps.append({"t": env.ts(env.now), "lab": lab, "seg": 0, "st": st, "rows": [], "newlog": [],
                              "prop": [], "dcalls": [],
                              "exc": exc_view(exc) if exc is not None else {"type": "", "msg": "", "site": ""},
                              "raised": raised, "callexc": callexc})

            def on_event(lab, exc):
                try:
                    record(lab, exc, env.last_raised)
                except BaseException as he:
                    raise HarnessError(repr(he)) from he

            record({"kind": "INIT", "o": "", "k": 0, "n": 0}, None)
            env.on_event = on_event
            hot, cold = buf.hot[0], buf.cold[0]
            for op in seq:
                lab = {"kind": "CALL", "o": op["op"], "k": 0, "n": 0}
                call = {"op": op["op"], "o": op.get("o", ""), "size": 0, "k": 0, "m": ""}
                callexc = ""
                if op["op"] == "Tick":
                    record(dict(lab), None)
                    steps[-1]["call"] = call
                    try:
                        env.run(until=env.now + 1)
                    except HarnessError:
                        raise
                    except BaseException:
                        env._queue = [e for e in env._queue
                                      if not any(cb == StopSimulation.callback for cb in (e[3].callbacks or []))]
                        import heapq
                        heapq.heapify(env._queue)
                        steps[-1]["st"]["queue"] = proj.state()["queue"]
                    continue
                if op["op"] in ("StoreHot", "StoreCold"):
                    # harness set-up of a fully ingested observation in one tier
                    o = byname[op["o"]]
                    size = o.ingest_data_rate * o.duration
                    tier = hot if op["op"] == "StoreHot" else cold
                    if tier.current_capacity - size < 0 or o.total_data_size > 0:
                        callexc = "Refused"
                    else:
                        o.total_data_size = size
                        o.status = RunStatus.FINISHED
                        tier.current_capacity -= size
                        tier.observations["stored"].append(o)
                elif op["op"] == "StartIngest":
                    # an observation starts streaming into the hot tier (as
                    # Scheduler.allocate_ingest does: RUNNING, then the stream)
                    o = byname[op["o"]]
                    o.status = RunStatus.RUNNING
                    o.ast = env.now
                    env.process(buf.ingest_data_stream(o))
                elif op["op"] == "H2C":
                    env.process(buf.move_hot_to_cold(0))
                elif op["op"] == "C2H":
                    env.process(buf.move_cold_to_hot(0))
                record(lab, None, "", callexc)
                steps[-1]["call"] = call
            out["end"] = {"completed": True, "exc": {"type": "", "msg": "", "site": ""}, "budget": False,
                          "calls": [], "t": env.ts(env.now), "st": proj.state(), "rows": [], "log": [],
                          "tasktable": [], "plans": []}
            for s_ in steps:
                s_.setdefault("call", {"op": "", "o": "", "size": 0, "k": 0, "m": ""})
                s_.setdefault("callexc", "")
            delta_encode(steps)
    finally:
        shutil.rmtree(workdir, ignore_errors=True)
    return out
