"""Generation of trace batches (parallel real executions of topsim) for the
trace-validation checks.  Everything is derived from VERIF_SEED and the
tier; nothing depends on wall-clock or on the process id."""
import json
import os
import random
import sys
from concurrent.futures import ProcessPoolExecutor

from . import gen

TIER_SIZES = {
    # family: (quick, thorough)
    "main": (144, 1200),
    "tight": (24, 160),
    "adv": (32, 240),
    "perm": (24, 200),
    "join": (40, 300),      # join-heavy workflows, fractional transfer waits
    "b2b": (16, 160),       # sub-array observations starting exactly when others finish
    "units": (16, 120),     # timestep unit of 4 s, planned starts between two steps
    "bigcap": (6, 40),      # capacities ~2e9, data volumes of a few units
    "overrate": (6, 40),    # data rate above the hot buffer's maximum ingest rate
    "tier": (20, 160),      # hot buffer beyond its tiering threshold (known findings live here)
    "overlap": (8, 40),
    "late": (4, 20),        # long quiet stretches: the last observation falls due around t = 100 / t = 1000
}
PERM_KINDS = ["AT", "AI", "PI", "ST"]


def jobs(tier, seed):
    """list of (tag, cfg, run-kwargs) - deterministic in (tier, seed)"""
    out = []
    idx = 0 if tier == "quick" else 1
    rng = random.Random(f"main-{seed}")
    algs = ["batch", "batch", "queue", "plan", "greedy", "batch"]
    for i in range(TIER_SIZES["main"][idx]):
        out.append(("main", gen.random_cfg(rng, alg=algs[i % len(algs)], family="roomy"), {}))
    rng = random.Random(f"tight-{seed}")
    for i in range(TIER_SIZES["tight"][idx]):
        out.append(("tight", gen.random_cfg(rng, alg=algs[i % 3], family="tight"), {}))
    rng = random.Random(f"adv-{seed}")
    for i in range(TIER_SIZES["adv"][idx]):
        out.append(("adv", gen.random_cfg(rng, alg="adv", family="roomy", maxn=3), {}))
    rng = random.Random(f"join-{seed}")
    for i in range(TIER_SIZES["join"][idx]):
        out.append(("join", gen.random_cfg(rng, alg=["queue", "batch", "plan", "greedy"][i % 4], family="join"), {}))
    rng = random.Random(f"b2b-{seed}")
    for i in range(TIER_SIZES["b2b"][idx]):
        out.append(("b2b", gen.random_cfg(rng, alg=algs[i % 3], family="b2b"), {}))
    rng = random.Random(f"units-{seed}")
    for i in range(TIER_SIZES["units"][idx]):
        out.append(("units", gen.random_cfg(rng, alg=algs[i % len(algs)], family="units"), {}))
    rng = random.Random(f"bigcap-{seed}")
    for i in range(TIER_SIZES["bigcap"][idx]):
        out.append(("bigcap", gen.random_cfg(rng, alg=algs[i % 3], family="bigcap"), {}))
    rng = random.Random(f"overrate-{seed}")
    for i in range(TIER_SIZES["overrate"][idx]):
        out.append(("overrate", gen.random_cfg(rng, alg=algs[i % 3], family="overrate"), {}))
    rng = random.Random(f"tier-{seed}")
    for i in range(TIER_SIZES["tier"][idx]):
        out.append(("tier", gen.random_cfg(rng, alg=algs[i % 3], family="tier"), {}))
    rng = random.Random(f"overlap-{seed}")
    for i in range(TIER_SIZES["overlap"][idx]):
        out.append(("overlap", gen.random_cfg(rng, alg=algs[i % 3], family="overlap", nobs=2), {}))
    rng = random.Random(f"late-{seed}")
    for i in range(TIER_SIZES["late"][idx]):
        c = gen.random_cfg(rng, alg=["batch", "queue"][i % 2], family="roomy", nobs=2, maxn=3)
        c.pop("decoy", None)
        if i % 4 == 3:
            # one very long task (more than 64 steps on the slowest machine) ahead of a short one
            c = gen.random_cfg(rng, alg=["batch", "queue"][(i // 4) % 2], family="roomy", nobs=1, maxn=3)
            c.pop("decoy", None)
            c["obs"][0]["wf"] = {"nodes": [{"k": 1, "comp": 70 * max(m["cpu"] for m in c["machines"]), "data": 0},
                                           {"k": 2, "comp": 1, "data": 0}],
                                 "edges": [{"u": 1, "v": 2, "vol": 1}]}
            c["extra"] = []
            out.append(("late", gen.normalise(c), {}))
            continue
        off = [997, 98, 999, 99, 998][i % 5]
        c["obs"][-1]["est"] = off + rng.randint(0, 1)
        if "estT" in c["obs"][-1]:
            c["obs"][-1].pop("estT")
        out.append(("late", gen.normalise(c), {}))
    rng = random.Random(f"perm-{seed}")
    for i in range(TIER_SIZES["perm"][idx]):
        c = gen.random_cfg(rng, alg=algs[i % len(algs)], family="roomy")
        c["perm"] = PERM_KINDS
        out.append(("perm", c, {"perm_seed": rng.randint(0, 10 ** 9), "perm_kinds": PERM_KINDS}))
    return out


def _run_one(args):
    tag, cfg, kw, budget = args
    from . import runsim
    tr = runsim.run(cfg, delta=True, budget=budget, **kw)
    tr["tag"] = tag
    return tr


def serial_bound(cfg):
    """Python mirror of Props!SerialBound only used to size the harness'
    step budget (the verdict is TLC's)."""
    K = cfg.get("K", 1)
    obs = cfg["obs"]
    mach = cfg["machines"]
    extra = {(e["o"], e["k"]): e["x"] for e in cfg.get("extra", [])}
    b = max(o["est"] for o in obs)
    rate = max(1, min(cfg["hotRate"], cfg["coldRate"]))
    ntasks = 0
    for o in obs:
        vol = o["rate"] * o["dur"]
        b += o["dur"] + 2 * (-(-vol // rate) + 1)
        preds = {}
        for e in o["wf"]["edges"]:
            preds.setdefault(e["v"], []).append(e["vol"])
        for n in o["wf"]["nodes"]:
            ntasks += 1
            rt = max(max(1, max(n["comp"] // m["cpu"], n["data"] // m["bw"])) for m in mach)
            wait = max([0] + [-(-v // m["bw"]) for v in preds.get(n["k"], []) for m in mach])
            b += rt + extra.get((o["o"], n["k"]), 0) + wait
    b += 3 * (len(obs) + ntasks)
    return b * K


def make_traces(joblist, workers=16):
    args = [(tag, cfg, kw, serial_bound(cfg) + 5 * cfg.get("K", 1)) for tag, cfg, kw in joblist]
    with ProcessPoolExecutor(max_workers=workers) as ex:
        return list(ex.map(_run_one, args, chunksize=4))


def write_shards(traces, outdir, nshards=16):
    os.makedirs(outdir, exist_ok=True)
    shards = [[] for _ in range(nshards)]
    # longest-first round robin keeps the shards balanced
    order = sorted(range(len(traces)), key=lambda i: -len(traces[i]["steps"]))
    for j, i in enumerate(order):
        shards[j % nshards].append(i)
    paths = []
    for s, idxs in enumerate(shards):
        if not idxs:
            continue
        p = os.path.join(outdir, f"shard_{s:02d}.json")
        with open(p, "w") as f:
            json.dump({"traces": [traces[i] for i in idxs], "gids": idxs}, f)
        paths.append(p)
    return paths
