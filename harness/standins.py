"""Harness-side stand-ins injected through topsim's constructor parameters.
None of this is topsim code; see DESIGN.md section 4.4."""
import copy
import json

import networkx as nx

from topsim.algorithms.planning import Planning
from topsim.algorithms.scheduling import Scheduling
from topsim.core.planner import WorkflowPlan, WorkflowStatus
from topsim.core.task import Task
from topsim.core.delay import DelayModel
from topsim.user.plan.batch_planning import BatchPlanning


class TaskDelay:
    """Per-task scripted delay: returns runtime + extra and records calls."""

    class _Deg:
        value = 0

    def __init__(self, extra, log, key):
        self.extra, self.log, self.key = extra, log, key
        self.degree = TaskDelay._Deg()

    def generate_delay(self, runtime):
        total = runtime + self.extra
        self.log.append({"o": self.key[0], "k": self.key[1], "runtime": int(runtime), "total": int(total)})
        return total


class ScriptedDelayModel(DelayModel):
    """DelayModel handed to Simulation(delay=...) so that the monitor's
    'delay' column has something to print; per-task delays are attached by the
    harness planners (TaskDelay)."""

    def __init__(self):
        super().__init__(0.0, "normal", DelayModel.DelayDegree.NONE)


class PlanRegistry:
    def __init__(self, extra=None):
        self.plans = {}        # obs name -> list of Task (all tasks of the plan)
        self.plan_objs = {}
        self.extra = extra or {}   # (o, k) -> extra delay
        self.delay_calls = []

    def register(self, observation, plan):
        self.plans[observation.name] = list(plan.tasks)
        self.plan_objs[observation.name] = plan
        for t in plan.tasks:
            gid = t.graph_id
            key = (observation.name, int(gid) + 1)
            x = self.extra.get(key, 0)
            if self.extra:
                t.delay = TaskDelay(x, self.delay_calls, key)


class HBatchPlanning(BatchPlanning):
    """topsim's own BatchPlanning; only adds registration of the generated
    plan (and attaches scripted per-task delays)."""

    def __init__(self, registry, delay_model=None):
        super().__init__('batch', delay_model)
        self.registry = registry

    def generate_plan(self, clock, cluster, buffer, observation, max_ingest):
        plan = super().generate_plan(clock, cluster, buffer, observation, max_ingest)
        self.registry.register(observation, plan)
        return plan


class StaticPlanning(Planning):
    """Stand-in for SHADOWPlanning (SHADOW is not installed): builds a
    WorkflowPlan the way SHADOWPlanning does, from a task -> machine
    assignment given by the harness (cfg['plan']), est/eft from list
    scheduling of that assignment."""

    def __init__(self, registry, assignment, delay_model=None):
        super().__init__('static', delay_model)
        self.registry = registry
        self.assignment = assignment   # (o, k) -> {"m":..., "est":..., "eft":...}

    def __str__(self):
        return 'StaticPlanning'

    def to_df(self):
        pass

    def generate_plan(self, clock, cluster, buffer, observation, max_ingest):
        with open(observation.workflow) as f:
            graph = nx.readwrite.node_link_graph(json.load(f)['graph'])
        est_w = self._calc_workflow_est(observation, buffer)
        mapping, tasks = {}, []
        for node in nx.topological_sort(graph):
            a = self.assignment[(observation.name, int(node) + 1)]
            tid = self._create_observation_task_id(node, observation, clock)
            preds = [self._create_observation_task_id(x, observation, clock)
                     for x in graph.predecessors(node)]
            edge_costs = {}
            for p, d in dict(graph.pred[node]).items():
                edge_costs[self._create_observation_task_id(p, observation, clock)] = d["transfer_data"]
            t = Task(tid, a["est"], a["eft"], a["m"], preds,
                     graph.nodes[node]['comp'], graph.nodes[node].get('task_data', 0),
                     edge_costs, copy.copy(self.delay_model), gid=node)
            mapping[node] = t
            tasks.append(t)
        new_graph = nx.relabel_nodes(graph, mapping)
        tasks.sort(key=lambda x: x.est)
        eft = max([t.eft for t in tasks], default=0)
        plan = WorkflowPlan(observation.name, est_w, eft, tasks,
                            [t.id for t in tasks], WorkflowStatus.SCHEDULED,
                            max_ingest, new_graph)
        self.registry.register(observation, plan)
        return plan


class RecordingAlgorithm(Scheduling):
    """Wraps a shipped algorithm; records every proposal it returns."""

    def __init__(self, inner, sink):
        super().__init__()
        self.inner, self.sink = inner, sink
        self.name = getattr(inner, "name", self.name)

    def __repr__(self):
        return repr(self.inner)

    def __getattr__(self, name):
        # transparent: whatever else the simulator asks the algorithm object for
        # (its name, its partition parameters) is the wrapped algorithm's answer
        if name in ("inner", "sink"):
            raise AttributeError(name)
        return getattr(self.inner, name)

    def run(self, cluster, clock, workflow_plan, existing_schedule, task_pool):
        from .tracer import task_key
        out = self.inner.run(cluster=cluster, clock=clock, workflow_plan=workflow_plan,
                             existing_schedule=existing_schedule, task_pool=task_pool)
        alloc, status, pool = out
        self.sink.append({"o": workflow_plan.id, "clock": clock,
                          "prop": sorted(({"k": task_key(t)[1], "m": str(m.id)} for t, m in alloc.items()),
                                         key=lambda r: r["k"]),
                          "status": status.name})
        return out

    def to_df(self):
        return self.inner.to_df()


class Foreign:
    """A machine object that is not part of the cluster."""

    def __init__(self, template):
        self.id = "foreign"
        self.cpu, self.bandwidth = template.cpu, template.bandwidth
        self.memory, self.disk = 1, 1

    def __repr__(self):
        return "foreign"

    def __hash__(self):
        return hash(self.id)

    def __eq__(self, other):
        return getattr(other, "id", None) == self.id


class ScriptedAdversary(Scheduling):
    """User-supplied scheduling algorithm that proposes whatever the script
    says: script[(o, round)] = list of (k, machine id | 'foreign'); beyond the
    script it falls back to `fallback` ('greedy-any': every unfinished task of
    the plan on pseudo-random machines drawn from rng, including busy ones;
    'legal': ready tasks on free machines so that runs complete)."""

    def __init__(self, script, rng, sink, wild_rounds=6, prov=0):
        super().__init__()
        self.script, self.rng, self.sink = script, rng, sink
        self.rounds = {}
        self.wild_rounds = wild_rounds
        self.foreign = None
        self.prov = prov     # reserve this many machines per workflow and leave the release to the scheduler

    def __repr__(self):
        return "ScriptedAdversary"

    def to_df(self):
        pass

    def run(self, cluster, clock, workflow_plan, existing_schedule, task_pool):
        from .tracer import task_key
        from topsim.core.task import TaskStatus
        o = workflow_plan.id
        r = self.rounds.get(o, 0)
        self.rounds[o] = r + 1
        if self.foreign is None:
            self.foreign = Foreign(cluster.machines[0])
        if (self.prov > 0 and r == 0 and not cluster.is_observation_provisioned(o)
                and len(cluster.get_available_resources()) > 0):
            cluster.provision_batch_resources(self.prov, o)
        alloc = copy.copy(existing_schedule)
        by_k = {task_key(t)[1]: t for t in workflow_plan.tasks}
        if (o, r) in self.script:
            for k, mid in self.script[(o, r)]:
                if k in by_k:
                    alloc[by_k[k]] = self.foreign if mid == "foreign" else cluster.machine_ids[mid]
        elif r < self.wild_rounds and self.rng is not None:
            # arbitrary proposals: any remaining task (whatever its status /
            # readiness) on any machine (busy, duplicated, foreign)
            for k, t in by_k.items():
                x = self.rng.random()
                if x < 0.5:
                    mids = list(cluster.machine_ids) + ["foreign"]
                    mid = self.rng.choice(mids)
                    alloc[t] = self.foreign if mid == "foreign" else cluster.machine_ids[mid]
        else:
            # legal fallback so that the run can complete: ready, unscheduled
            # tasks on currently available machines
            for t in list(alloc):
                alloc.pop(t)
            free = cluster.get_available_resources() + cluster.get_idle_resources(o)
            for t in workflow_plan.tasks:
                if not free:
                    break
                if t.task_status is TaskStatus.UNSCHEDULED and all(
                        cluster.is_task_finished(p) for p in workflow_plan.graph.predecessors(t)):
                    alloc[t] = free.pop(0)
        status = workflow_plan.status
        if len(workflow_plan.tasks) == 0:
            status = WorkflowStatus.FINISHED
            workflow_plan.status = status
        self.sink.append({"o": o, "clock": clock,
                          "prop": sorted(({"k": task_key(t)[1], "m": str(m.id)} for t, m in alloc.items()),
                                         key=lambda r_: r_["k"]),
                          "status": status.name})
        return alloc, status, task_pool
