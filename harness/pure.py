"""(input, output) records of topsim's pure functions for spec/Pure.tla."""
import contextlib
import io
import itertools
import json
import os
import random
import shutil
import sys
import tempfile

from . import runsim  # noqa: F401  (sets sys.path to the topsim tree)


def _as_int(v, what):
    """exact: whole multiples of the unit must parse to whole numbers, not to
    7.000000000000001 (a step count is compared with integer clocks)"""
    r = round(v)
    if v != r:
        raise ValueError(f"non-integral {what}: {v!r}")
    return int(r)


# ------------------------------------------------------------------ C14
def plan_inputs(exhaustive=True, rng=None, extra=0):
    out = []
    for n in range(1, 5):
        pairs = [(u, v) for u in range(n) for v in range(n) if u < v]
        for r in range(len(pairs) + 1):
            for es in itertools.combinations(pairs, r):
                for dv in ("none", "all", "odd"):
                    for nm in ("a", "obs_x"):
                        for ck in (0, 7):
                            for rev in (False, True):
                                out.append({"n": n, "edges": [{"u": u, "v": v} for u, v in es], "dv": dv,
                                            "name": nm, "clock": ck, "rev": rev, "half": False})
    # the same graphs with demands that are not whole numbers (comp k + 1.5, data 2.5)
    for x in [dict(y) for y in out if y["name"] == "a" and y["clock"] == 7 and not y["rev"]]:
        x["half"] = True
        out.append(x)
    for _ in range(extra):
        n = rng.randint(5, 14)
        es = [(u, v) for u in range(n) for v in range(u + 1, n) if rng.random() < 0.25]
        out.append({"n": n, "edges": [{"u": u, "v": v} for u, v in es], "dv": rng.choice(["none", "all", "odd"]),
                    "name": rng.choice(["a", "obs_x", "emu"]), "clock": rng.randint(0, 50), "rev": rng.random() < 0.4,
                    "half": rng.random() < 0.3})
    return out


def _edge(x, e):
    """edge u -> v of the input (v -> u when the labelling is reversed: node
    labels then decrease along every path); volumes include 0 (pure control
    dependencies)"""
    a, b = (e["v"], e["u"]) if x.get("rev") else (e["u"], e["v"])
    return {"source": a, "target": b, "transfer_data": (e["u"] + 2 * e["v"]) % 4}


def run_plan(x, wd):
    import simpy
    from topsim.core.planner import Planner
    from topsim.core.instrument import Observation
    from topsim.user.plan.batch_planning import BatchPlanning

    nodes = []
    for k in range(x["n"]):
        d = {"id": k, "comp": k + 1 + (0.5 if x.get("half") else 0)}
        if x["dv"] == "all" or (x["dv"] == "odd" and k % 2 == 1):
            d["task_data"] = 2 + (0.5 if x.get("half") else 0)
        nodes.append(d)
    g = {"directed": True, "multigraph": False, "graph": {}, "nodes": nodes,
         "edges": [_edge(x, e) for e in x["edges"]]}
    p = os.path.join(wd, "wf.json")
    with open(p, "w") as f:
        json.dump({"header": {}, "graph": g}, f)

    class Buf:
        def buffer_storage_summary(self):
            return {"hotbuffer": {"capacity": 10, "data_rate": 1}, "coldbuffer": {"capacity": 10, "data_rate": 1}}
    env = simpy.Environment(initial_time=x["clock"])
    planner = Planner(env, None, BatchPlanning('batch'), None)
    obs = Observation(x["name"], 0, 2, 1, p, 1)
    rec = {"x": x, "raised": "", "y": {"tasks": [], "edges": []}}
    try:
        plan = planner.run(obs, Buf(), None)
        tasks = []
        for t in plan.tasks:
            tasks.append({"id": str(t.id), "gid": int(t.graph_id), "flops2": _as_int(2 * t.flops, "demand"),
                          "data2": _as_int(2 * t.task_data, "demand"),
                          "pred": [str(p_) for p_ in t.pred],
                          "io": [{"p": str(a), "v": int(b)} for a, b in (t.io or {}).items()],
                          "qpred": [str(q.id) for q in plan.get_task_predecessors(t)],
                          "qsucc": [str(q.id) for q in plan.get_task_successors(t)]})
        rec["y"] = {"tasks": tasks, "edges": [{"u": str(a.id), "v": str(b.id)} for a, b in plan.graph.edges()]}
    except Exception as e:  # noqa
        rec["raised"] = type(e).__name__
    return rec


def run_plan_shared(x, wd):
    """one planner instance plans two observations whose pipelines use the
    same workflow file; the first plan is inspected after the second one was
    generated (plans must not share mutable state)"""
    import simpy
    from topsim.core.planner import Planner
    from topsim.core.instrument import Observation
    from topsim.user.plan.batch_planning import BatchPlanning

    nodes = []
    for k in range(x["n"]):
        d = {"id": k, "comp": k + 1 + (0.5 if x.get("half") else 0)}
        if x["dv"] == "all" or (x["dv"] == "odd" and k % 2 == 1):
            d["task_data"] = 2 + (0.5 if x.get("half") else 0)
        nodes.append(d)
    g = {"directed": True, "multigraph": False, "graph": {}, "nodes": nodes,
         "edges": [_edge(x, e) for e in x["edges"]]}
    p = os.path.join(wd, "wf_shared_%d.json" % (abs(hash(json.dumps(x, sort_keys=True))) % 10 ** 9))
    with open(p, "w") as f:
        # generator metadata of the workflow file is not the simulator's business
        json.dump({"header": {"time": True} if x["n"] % 2 == 0 else {"time": "false"}, "graph": g}, f)

    class Buf:
        def buffer_storage_summary(self):
            return {"hotbuffer": {"capacity": 10, "data_rate": 1}, "coldbuffer": {"capacity": 10, "data_rate": 1}}
    env = simpy.Environment(initial_time=x["clock"])
    planner = Planner(env, None, BatchPlanning('batch'), None)
    x2 = dict(x, name="zz")
    x3 = dict(x, clock=x["clock"] + 5)      # the same observation name planned again, later
    recs = [{"x": x, "raised": "", "y": {"tasks": [], "edges": []}}, {"x": x2, "raised": "", "y": {"tasks": [], "edges": []}},
            {"x": x3, "raised": "", "y": {"tasks": [], "edges": []}}]

    def view(plan):
        tasks = []
        for t in plan.tasks:
            tasks.append({"id": str(t.id), "gid": int(t.graph_id), "flops2": _as_int(2 * t.flops, "demand"),
                          "data2": _as_int(2 * t.task_data, "demand"),
                          "pred": [str(p_) for p_ in t.pred],
                          "io": [{"p": str(a), "v": int(b)} for a, b in (t.io or {}).items()],
                          "qpred": [str(q.id) for q in plan.get_task_predecessors(t)],
                          "qsucc": [str(q.id) for q in plan.get_task_successors(t)]})
        return {"tasks": tasks, "edges": [{"u": str(a.id), "v": str(b.id)} for a, b in plan.graph.edges()]}
    try:
        p1 = planner.run(Observation(x["name"], 0, 2, 1, p, 1), Buf(), None)
        p2 = planner.run(Observation("zz", 0, 2, 1, p, 1), Buf(), None)
        env.run(until=x["clock"] + 5)
        p3 = planner.run(Observation(x["name"], 0, 2, 1, p, 1), Buf(), None)
        recs[2]["y"] = view(p3)
        recs[1]["y"] = view(p2)
        recs[0]["y"] = view(p1)
    except Exception as e:  # noqa
        recs[0]["raised"] = recs[1]["raised"] = recs[2]["raised"] = type(e).__name__
    return recs


# ------------------------------------------------------------------ C16
def config_inputs():
    out = []
    for u in ("absent", "seconds", "minutes", "hours", "int"):
        for ui in (1, 2, 7, 60, 75, 90, 300, 600, 3600):
            for s, d, r, f, b in itertools.product((0, 3, 7), (1, 5, 7, 15, 29), (1, 4), (2, 7), (1, 3)):
                out.append({"unit": u, "ui": ui, "start": s, "dur": d, "rate": r, "flops": f, "bw": b,
                            "hotrate": 5, "coldrate": 2})
            # a `real time` cold tier (non-positive rate) next to an ordinary hot tier
            for s, d in ((0, 1), (7, 29)):
                out.append({"unit": u, "ui": ui, "start": s, "dur": d, "rate": 4, "flops": 2, "bw": 3,
                            "hotrate": 5, "coldrate": -1})
            # machine speeds that are not whole numbers per second (flops + 1/2, bandwidth + 1/2)
            out.append({"unit": u, "ui": ui, "start": 3, "dur": 5, "rate": 1, "flops": 2, "bw": 1,
                        "hotrate": 5, "coldrate": 2, "half": True})
    for x in out:
        x.setdefault("half", False)
    return out


def run_config(x, wd):
    from topsim.core.config import Config
    m = {"minutes": 60, "hours": 3600, "int": x["ui"]}.get(x["unit"], 1)
    raw_start, raw_dur = x["start"] * m, x["dur"] * m
    conf = {
        "instrument": {"telescope": {"total_arrays": 8, "max_ingest_resources": 2,
                                     "pipelines": {"o": {"workflow": "wf.json", "ingest_demand": 2}},
                                     "observations": [{"name": "o", "start": raw_start, "duration": raw_dur,
                                                       "instrument_demand": 3, "data_product_rate": x["rate"]}]}},
        "cluster": {"header": {}, "system": {"resources": {"m0": {"flops": x["flops"] + (0.5 if x.get("half") else 0),
                                                                  "compute_bandwidth": x["bw"] + (0.5 if x.get("half") else 0)}},
                                             "system_bandwidth": 4}},
        "buffer": {"hot": {"capacity": 500, "max_ingest_rate": x["hotrate"]},
                   "cold": {"capacity": 700, "max_data_rate": x["coldrate"]}},
    }
    if x["unit"] == "int":
        conf["timestep"] = x["ui"]
    elif x["unit"] != "absent":
        conf["timestep"] = x["unit"]
    p = os.path.join(wd, "c.json")
    with open(p, "w") as f:
        json.dump(conf, f)
    rec = {"x": x, "raised": "", "y": {}}
    try:
        c = Config(p)
        ys = []
        for _ in range(2):      # every component of a simulation parses its section from one Config
            ys.append(_parse_view(c, raw_start, raw_dur))
        if ys[0] != ys[1]:
            raise ValueError("second parse of one Config differs")
        rec["y"] = ys[0]
    except ValueError as e:
        # a parsed value that should be a whole number is not: that is a verdict
        # for TLC (the record does not satisfy ConfigOK), not a harness failure
        rec["raised"] = str(e)[:60]
        rec["y"] = {}
    except Exception as e:  # noqa
        rec["raised"] = type(e).__name__
    return rec


def _parse_view(c, raw_start, raw_dur):
    if True:
        machines, sysbw = c.parse_cluster_config()
        arrays, pipelines, observations, max_ingest = c.parse_instrument_config("telescope")
        hot, cold = c.parse_buffer_config()
        o = observations[0]
        return {
            "raw_start": raw_start, "raw_dur": raw_dur,
            "obs": {"start": _as_int(o.est, "start"), "dur": _as_int(o.duration, "duration"),
                    "rate": _as_int(o.ingest_data_rate, "rate"), "demand": int(o.demand)},
            "total_arrays": int(arrays), "max_ingest": int(max_ingest),
            "ingest_demand": int(pipelines["o"]["ingest_demand"]),
            # speeds are logged doubled (they may be odd multiples of one half)
            "mach": {"cpu2": _as_int(2 * machines[0].cpu, "cpu"), "bw2": _as_int(2 * machines[0].bandwidth, "bw")},
            "sysbw": _as_int(sysbw, "sysbw"),
            "hot": {"rate": _as_int(hot[0].max_ingest_data_rate, "hot rate"), "cap": int(hot[0].total_capacity)},
            "cold": {"rate": _as_int(cold[0].max_data_rate, "cold rate"), "cap": int(cold[0].total_capacity)},
            "volume": _as_int(o.ingest_data_rate * o.duration, "volume"),
        }


def unit_inputs():
    """whole simulations of one physical system written in different timestep
    units; the workflow file's header (generator metadata) varies too"""
    out = []
    for unit in (1, 30, "minutes", 120):
        for header in ("absent", True, "false"):
            for wf in (0, 1, 2, 3):
                out.append({"unit": unit, "header": header, "wf": wf})
    return out


def run_unit_sim(x, wd):
    """task runtimes and the observation's data volume, measured in seconds,
    of a real simulation: machine 2 flop/s, 4 data units/s; compute demands are
    multiples of 240 flop (a whole number of steps in every unit used)"""
    import simpy
    from topsim.core.simulation import Simulation
    from topsim.user.telescope import Telescope
    from topsim.user.plan.batch_planning import BatchPlanning
    from topsim.user.schedule.queue_allocation import QueueProcessing
    u = {"minutes": 60}.get(x["unit"], x["unit"])
    comps = [[240, 480, 720], [960, 240, 240, 480], [240, 480, 480], [240, 480, 720]][x["wf"]]
    datas = [[0, 480, 0], [0, 0, 1920, 0], [0, 0, 0], [0, 480, 0]][x["wf"]]
    # variant 3: a 120 s observation (a single step in the coarsest unit) whose
    # volume (360) fills 55 % of the hot buffer
    dur, hotcap = (120, 650) if x["wf"] == 3 else (240, 5000)
    nodes = []
    for k, c in enumerate(comps):
        d = {"id": k, "comp": c}
        if datas[k]:
            d["task_data"] = datas[k]
        nodes.append(d)
    edges = [{"source": k, "target": k + 1, "transfer_data": 0} for k in range(len(comps) - 1)]
    if x["wf"] == 2:
        # a fork: both children become ready together, one of them on the other
        # machine, which then waits 480 units / (4 units/s) = 120 s for its input
        edges = [{"source": 0, "target": 1, "transfer_data": 480}, {"source": 0, "target": 2, "transfer_data": 480}]
    sub = os.path.join(wd, "unit_%s_%s_%d" % (x["unit"], x["header"], x["wf"]))
    os.makedirs(sub, exist_ok=True)
    hdr = {} if x["header"] == "absent" else {"time": x["header"]}
    with open(os.path.join(sub, "wf.json"), "w") as f:
        json.dump({"header": hdr, "graph": {"directed": True, "multigraph": False, "graph": {}, "nodes": nodes, "edges": edges}}, f)
    conf = {
        "instrument": {"telescope": {"total_arrays": 4, "max_ingest_resources": 1,
                                     "pipelines": {"o": {"workflow": "wf.json", "ingest_demand": 1}},
                                     "observations": [{"name": "o", "start": 0, "duration": dur,
                                                       "instrument_demand": 2, "data_product_rate": 3}]}},
        "cluster": {"header": {}, "system": {"resources": {"m0": {"flops": 2, "compute_bandwidth": 4},
                                                           "m1": {"flops": 2, "compute_bandwidth": 4}},
                                             "system_bandwidth": 4}},
        "buffer": {"hot": {"capacity": hotcap, "max_ingest_rate": 5}, "cold": {"capacity": 5000, "max_data_rate": 2}},
    }
    if x["unit"] != 1:
        conf["timestep"] = x["unit"]
    cp = os.path.join(sub, "c.json")
    with open(cp, "w") as f:
        json.dump(conf, f)
    rec = {"x": x, "raised": "", "tasks": [], "vol": -1, "obs_seconds": -1, "dur": dur, "finished": False}
    try:
        env = simpy.Environment()
        sim = Simulation(env, cp, Telescope, BatchPlanning('batch'), 'batch', QueueProcessing(), timestamp=0)
        placed = {}
        orig = sim.cluster.allocate_task_to_cluster

        def observe(task, machine, *a, **k):      # pure observer: where and when a task is handed over
            placed[str(task.id)] = (str(machine.id), env.now)
            return orig(task, machine, *a, **k)
        sim.cluster.allocate_task_to_cluster = observe
        # run to completion, but give up far beyond the 2 000 s the work takes
        chunk = max(5, 200 // u)
        sim.start(runtime=chunk)
        while not sim.is_finished() and env.now * u < 6000:
            sim.resume(until=env.now + chunk)
        rec["finished"] = bool(sim.is_finished())
        cl = sim.cluster._clusters["default"]
        for t in cl["tasks"]["finished"]:
            if "ingest" in str(t.id):
                rec["obs_seconds"] = _as_int((t.aft - t.ast) * u, "ingest seconds")
                continue
            k = int(t.graph_id)
            here, when = placed.get(str(t.id), ("", -1))
            preds = []
            for e in edges:
                if e["target"] == k:
                    pt = [q for q in cl["tasks"]["finished"] if "ingest" not in str(q.id) and int(q.graph_id) == e["source"]]
                    if pt:
                        preds.append({"aft": _as_int(pt[0].aft * u, "pred finish"), "vol": e["transfer_data"],
                                      "same": placed.get(str(pt[0].id), ("?", 0))[0] == here})
            rec["tasks"].append({"k": k, "sec": _as_int((t.aft - t.ast) * u, "seconds"),
                                 "expect": max(comps[k] // 2, datas[k] // 4),
                                 "ast": _as_int(t.ast * u, "start"), "alloc": _as_int(when * u, "hand-over"),
                                 "preds": preds})
        rec["tasks"].sort(key=lambda r: r["k"])
        rec["ntasks"] = len(comps)
        o = sim.instrument.observations[0]
        rec["vol"] = _as_int(o.total_data_size, "volume")
    except ValueError as e:
        rec["raised"] = str(e)[:60]
    except Exception as e:  # noqa
        rec["raised"] = type(e).__name__
    rec.setdefault("ntasks", len(comps))
    return rec


# ------------------------------------------------------------------ C15
def delay_records(maxrt):
    from topsim.core.delay import DelayModel as D
    out = []
    for prob in (0.0, 0.1, 0.3, 0.5, 1.0):
        for dist in ("normal", "poisson", "uniform"):
            for deg in ("NONE", "LOW", "MID", "HIGH"):
                for seed in (20, 1, 7):
                    for rt in range(0, maxrt + 1):
                        rec = {"prob1000": int(prob * 1000), "dist": dist, "degree": deg, "seed": seed,
                               "runtime": rt, "result": -1, "again": -2, "raised": ""}
                        try:
                            r1 = D(prob, dist, D.DelayDegree[deg], seed).generate_delay(rt)
                            r2 = D(prob, dist, D.DelayDegree[deg], seed).generate_delay(rt)
                            rec["result"], rec["again"] = _as_int(r1, "delay"), _as_int(r2, "delay")
                        except ValueError:
                            raise
                        except Exception as e:  # noqa
                            rec["raised"] = type(e).__name__
                        out.append(rec)
    # the planners hand every task a shallow copy of one model: a copy (with
    # its own probability / seed) must behave like a freshly built model
    import copy
    for dist in ("normal", "poisson", "uniform"):
        for deg in ("LOW", "HIGH"):
            base = D(1.0, dist, D.DelayDegree[deg], 20)
            for rt in range(0, maxrt + 1):
                base.generate_delay(rt)
            for prob, seed in ((0.0, 20), (1.0, 7), (0.3, 20), (1.0, 20)):
                c = copy.copy(base)
                c.prob, c.seed = prob, seed
                for rt in range(0, maxrt + 1, 2):
                    rec = {"prob1000": int(prob * 1000), "dist": dist, "degree": deg, "seed": seed,
                           "runtime": rt, "result": -1, "again": -2, "raised": ""}
                    try:
                        rec["result"] = _as_int(c.generate_delay(rt), "delay")
                        rec["again"] = _as_int(D(prob, dist, D.DelayDegree[deg], seed).generate_delay(rt), "delay")
                    except ValueError:
                        raise
                    except Exception as e:  # noqa
                        rec["raised"] = type(e).__name__
                    out.append(rec)
    return out


# ------------------------------------------------------------------ C06
def runtime_records(rng, n):
    import simpy
    from topsim.core.task import Task
    from topsim.core.machine import Machine
    from .standins import TaskDelay
    out = []
    grid = [(f, d, c, b, x) for f in (0, 1, 2, 3, 5, 8, 13) for d in (0, 1, 4, 9) for c in (1, 2, 3) for b in (1, 2)
            for x in (0, 1, 3)]
    for _ in range(n):
        grid.append((rng.randint(0, 60), rng.randint(0, 60), rng.randint(1, 7), rng.randint(1, 5), rng.choice([0, 0, 1, 2, 5])))
    # exact multiples of larger speeds (work / speed is a whole number of steps)
    for s in (7, 49, 98, 103, 107, 161, 187, 196):
        for q in range(1, 9):
            grid.append((s * q, 0, s, 1, 0))
            grid.append((1, s * q, 1, s, 0))
    for f, d, c, b, x in grid:
        env = simpy.Environment(initial_time=3)
        t = Task("o_0_0", 0, 0, None, [], f, d, {}, TaskDelay(x, [], ("o", 1)) if x else None, gid=0)
        m = Machine("m0", c, 1, 1, b)
        rec = {"flops": f, "data": d, "cpu": c, "bw": b, "extra": x, "ast": -1, "aft": -1, "raised": ""}
        try:
            env.process(t.do_work(env, m, None))
            env.run(until=400)
            rec["ast"], rec["aft"] = _as_int(t.ast, "ast"), _as_int(t.aft, "aft")
        except ValueError:
            raise
        except Exception as e:  # noqa
            rec["raised"] = type(e).__name__
        out.append(rec)
    return out


def build(tier, seed, which=("plan", "config", "delay", "runtime")):
    rng = random.Random(f"pure-{seed}")
    wd = tempfile.mkdtemp(prefix="topsim_p_")
    data = {"plan": [], "config": [], "delay": [], "runtime": [], "unitrun": [], "exhaustive": True}
    try:
        with contextlib.redirect_stdout(io.StringIO()), contextlib.redirect_stderr(io.StringIO()):
            if "plan" in which:
                inputs = plan_inputs(True, rng, 40 if tier == "quick" else 600)
                for x in inputs:
                    data["plan"].append(run_plan(x, wd))
                for x in inputs:
                    if x["n"] <= 3 and x["name"] == "a" and x["clock"] == 7:
                        data["plan"] += run_plan_shared(x, wd)
            if "config" in which:
                for x in config_inputs():
                    data["config"].append(run_config(x, wd))
                for x in unit_inputs():
                    data["unitrun"].append(run_unit_sim(x, wd))
            if "delay" in which:
                data["delay"] = delay_records(12 if tier == "quick" else 60)
            if "runtime" in which:
                data["runtime"] = runtime_records(rng, 200 if tier == "quick" else 3000)
    finally:
        shutil.rmtree(wd, ignore_errors=True)
    return data
