--------------------------- MODULE TopSimActors ---------------------------
(* One operator per process resume of the actors and of the ingest, task   *)
(* and tier-move processes (transcribed from the code, DESIGN.md App. A).  *)
(* Each takes the state *after* the queue entry was popped (now updated)   *)
(* and returns the state after the resume.                                 *)
EXTENDS TopSimState

STEP == K

(* ------------------------------- Monitor -------------------------------- *)
(* appends Row(S); collates and consumes the actors' pending event lists   *)
Pending(S) == S.ev.tel \o S.ev.sch \o S.ev.buf
Collate(S) == [S EXCEPT !.mon.logN = @ + Len(Pending(S)),
                        !.ev = [tel |-> <<>>, sch |-> <<>>, buf |-> <<>>]]
MonTick(S) ==
    LET pid == Actor("Mon")
        S1 == [S EXCEPT !.mon.rows = @ + 1, !.procs[pid].started = TRUE]
    IN Sleep(Collate(S1), pid, STEP)

(* ------------------------------ Telescope ------------------------------- *)
BufOK(S, o) == S.buf.hotFree - ObsVol(o) >= 0 /\ ColdHasCapacity(S, ObsVol(o))
(* demand of this observation plus what was promised earlier in the same  *)
(* telescope step and has not been taken from the cluster yet             *)
CluOK0(S, o) ==
    LET d == OCfg(o).ing + S.sch.pend
    IN d <= cfg.maxIngest /\ Cardinality(S.cl.avail) >= d
       /\ Cardinality(S.cl.ingest) + d <= cfg.maxIngest
AiPid(o) == Pid("AI", o, 0, 0)
PiPid(o) == Pid("PI", o, 0, 0)
StPid(o) == Pid("ST", o, 0, 0)
AtPid(o) == Pid("AT", o, 0, 0)
TpPid(t) == Pid("TP", t[1], t[2], 0)
WkPid(t) == Pid("WK", t[1], t[2], 0)

TelOne(S, o) ==
    LET c == OCfg(o)
        ob == S.obs[o]
        capacity == cfg.arrays - S.tel.use
    IN IF S.pend # "" THEN S
       ELSE IF ob.status = "WAITING" /\ c.estT <= S.now /\ c.demand <= capacity
       THEN IF c.dur < 1 \/ cfg.hotCap <= ObsVol(o) THEN Raise(S, "RuntimeError")
            ELSE LET cok == OCfg(o).ing + S.sch.pend <= cfg.maxIngest /\ CluOK0(S, o)
                            /\ S.sch.prov + c.ing <= cfg.maxIngest
                 IN IF BufOK(S, o) /\ cok
                    THEN LET S1 == [S EXCEPT !.sch.prov = @ + c.ing, !.sch.pend = @ + c.ing,
                                             !.tel.use = @ + c.demand,
                                             !.tel.flag = TRUE,
                                             !.obs[o].ast = S.now]
                         IN EmitTel(Spawn(S1, AiPid(o), Loc0), o, "telescope", "started")
                    ELSE S
       ELSE IF ob.ast # NoneT /\ S.now >= ob.ast + c.dur * K /\ S.tel.flag
               /\ ob.status # "FINISHED"
       THEN LET use2 == S.tel.use - c.demand
                S1 == [S EXCEPT !.obs[o].status = "FINISHED", !.tel.use = use2,
                                !.tel.flag = IF use2 = 0 THEN FALSE ELSE @]
            IN EmitTel(S1, o, "telescope", "finished")
       ELSE S

TelTick(S) ==
    LET pid == Actor("Tel")
    IN IF \A o \in ObsNames : S.obs[o].status = "FINISHED"
       THEN EndProc(S, pid)
       ELSE LET S1 == FoldLeft(TelOne, [S EXCEPT !.procs[pid].started = TRUE], cfg.order)
            IN IF S1.pend # "" THEN Die(S1, pid) ELSE Sleep(S1, pid, STEP)

(* --------------------------- allocate_ingest ---------------------------- *)
AIExit(S, pid) ==
    LET o == pid[2]
    IN EndProc([S EXCEPT !.sch.prov = @ - OCfg(o).ing, !.cl.ingStatus = FALSE], pid)
AIStep(S, pid) ==
    LET o == pid[2]
        loc == S.procs[pid]
        S0 == IF loc.started THEN S
              ELSE [S EXCEPT !.obs[o].ast = S.now,
                             !.procs[pid] = Loc(TRUE, OCfg(o).dur - 1, NoM, "", EmptyFn)]
        st == S0.obs[o].status
        left == S0.procs[pid].left
    IN IF st = "FINISHED" THEN AIExit(S0, pid)
       ELSE IF st = "WAITING"
       THEN LET S1 == Spawn(Spawn(S0, PiPid(o), Loc0), StPid(o), Loc0)
            IN Sleep([S1 EXCEPT !.obs[o].status = "RUNNING", !.sch.pend = @ - OCfg(o).ing], pid, STEP)
       ELSE IF left > 0 THEN Sleep([S0 EXCEPT !.procs[pid].left = left - 1], pid, STEP)
       ELSE AIExit(S0, pid)

(* ----------------------- provision_ingest_resources --------------------- *)
(* asg: sequence of distinct available machines, one per ingest task       *)
IngestTask(o, i) == <<o, -i>>          \* i = 1..ingest demand
NewIngestTask(o, m, now) ==
    [ status |-> "SCHEDULED", m |-> m, alloc |-> now, ast |-> NoneT, aft |-> NoneT,
      dur |-> OCfg(o).dur, flag |-> FALSE, doff |-> 0, pm |-> NoM ]
PIStep(S, pid, asg) ==
    LET o == pid[2]
        d == OCfg(o).ing
    IN IF S.procs[pid].started THEN EndProc(S, pid)
       ELSE IF d > Cardinality(S.cl.avail) THEN Die(Raise(S, "RuntimeError"), pid)
       ELSE LET ms == {asg[i] : i \in 1..d}
                S1 == [S EXCEPT !.cl.ingStatus = TRUE,
                                !.cl.avail = @ \ ms, !.cl.ingest = @ \cup ms,
                                !.tasks = @ @@ [t \in {IngestTask(o, i) : i \in 1..d} |->
                                                  NewIngestTask(o, asg[-t[2]], S.now)],
                                !.procs[pid].started = TRUE]
                SpawnTP(T, i) == Spawn(T, TpPid(IngestTask(o, i)),
                                       Loc(FALSE, 0, asg[i], "", EmptyFn))
                S2 == FoldLeft(SpawnTP, S1, [i \in 1..d |-> i])
            IN Sleep(S2, pid, STEP)
PIAssignments(S, o) ==
    LET d == OCfg(o).ing
        all == {a \in [1..d -> S.cl.avail] : \A i, j \in 1..d : i # j => a[i] # a[j]}
    IN IF d > Cardinality(S.cl.avail) THEN {<<>>}
       ELSE IF cfg.canon THEN {CHOOSE a \in all : TRUE} ELSE all

(* --------------------------- ingest_data_stream ------------------------- *)
STStep(S, pid) ==
    LET o == pid[2]
        loc == S.procs[pid]
        c == OCfg(o)
        S0 == IF loc.started THEN S
              ELSE IF S.obs[o].status = "WAITING" THEN Raise(S, "RuntimeError")
              ELSE EmitBuf([S EXCEPT !.procs[pid] = Loc(TRUE, c.dur - 1, NoM, "", EmptyFn)],
                           o, "buffer", "added")
    IN IF S0.pend # "" THEN Die(S0, pid)
       ELSE IF S0.obs[o].status # "RUNNING" THEN EndProc(S0, pid)
       ELSE IF c.rate > cfg.hotRate THEN Die(Raise(S0, "ValueError"), pid)
       ELSE LET S1 == [S0 EXCEPT !.buf.hotFree = @ - c.rate, !.obs[o].data = @ + c.rate]
                left == S0.procs[pid].left
            IN IF left > 0 THEN Sleep([S1 EXCEPT !.procs[pid].left = left - 1], pid, STEP)
               ELSE EndProc([S1 EXCEPT !.buf.hotStored = Append(@, o),
                                       !.buf.storedTimes = @ \cup {S.now}], pid)

(* ------------------------ allocate_task_to_cluster ---------------------- *)
TPClaim(S, pid) ==
    LET t == <<pid[2], pid[3]>>
        o == t[1]
        m == S.procs[pid].m
        wk == Loc(FALSE, 0, m, "new", EmptyFn)
        valid == IF IsIngestTask(t) THEN m \in S.cl.ingest
                 ELSE m \in S.cl.avail \/ m \in IdleOf(S, o)
    IN IF ~valid THEN Die(Raise(S, "RuntimeError"), pid)
       ELSE IF IsIngestTask(t)
       THEN LET S1 == [S EXCEPT !.cl.running = @ \cup {t},
                                !.cl.fin = @ @@ (t :> FALSE),
                                !.cl.uAvail = @ - 1, !.cl.uRun = @ + 1, !.cl.uIng = @ + 1,
                                !.tasks[t].status = "SCHEDULED",
                                !.procs[pid].started = TRUE]
            IN Sleep(Spawn([S1 EXCEPT !.tasks[t].alloc = IF @ = NoneT THEN S.now ELSE @], WkPid(t), wk), pid, STEP)
       ELSE IF m \notin S.cl.avail /\ o \in DOMAIN S.cl.idle /\ m \notin S.cl.idle[o]
       THEN Die(Raise(S, "ValueError"), pid)      \* list.remove(x): x not in list
       ELSE LET S1 == IF m \in S.cl.avail
                      THEN [S EXCEPT !.cl.avail = @ \ {m}, !.cl.occ = @ \cup {m}]
                      ELSE IF o \in DOMAIN S.cl.idle
                      THEN [S EXCEPT !.cl.idle[o] = @ \ {m}, !.cl.occ = @ \cup {m}]
                      ELSE S
                S2 == [S1 EXCEPT !.cl.running = @ \cup {t},
                                 !.cl.uAvail = @ - 1, !.cl.uRun = @ + 1,
                                 !.tasks[t].status = "SCHEDULED",
                                 !.tasks[t].alloc = IF @ = NoneT THEN S.now ELSE @,
                                 !.procs[pid].started = TRUE]
            IN Sleep(Spawn(S2, WkPid(t), wk), pid, STEP)

TPRelease(S, pid) ==
    LET t == <<pid[2], pid[3]>>
        o == t[1]
        m == S.procs[pid].m
        S1 == [S EXCEPT !.cl.running = @ \ {t}, !.cl.uRun = @ - 1,
                        !.cl.fin = [x \in DOMAIN @ \cup {t} |-> IF x = t THEN TRUE ELSE @[x]],
                        !.cl.uFin = @ + 1]
    IN IF IsIngestTask(t)
       THEN IF m \notin S.cl.ingest THEN Die(Raise(S1, "ValueError"), pid)
            ELSE EndProc([S1 EXCEPT !.cl.ingest = @ \ {m}, !.cl.avail = @ \cup {m},
                                    !.cl.uIng = @ - 1, !.cl.uAvail = @ + 1,
                                    !.tasks[t].status = "FINISHED"], pid)
       ELSE IF m \notin S.cl.occ THEN Die(Raise(S1, "ValueError"), pid)
       ELSE LET S2 == IF o \in DOMAIN S.cl.idle
                      THEN [S1 EXCEPT !.cl.occ = @ \ {m}, !.cl.idle[o] = @ \cup {m}]
                      ELSE [S1 EXCEPT !.cl.occ = @ \ {m}, !.cl.avail = @ \cup {m}]
            IN EndProc([S2 EXCEPT !.cl.uAvail = @ + 1, !.tasks[t].status = "FINISHED"], pid)

TPStep(S, pid) ==
    LET t == <<pid[2], pid[3]>>
    IN IF ~S.procs[pid].started THEN TPClaim(S, pid)
       ELSE IF WkPid(t) \notin DOMAIN S.procs THEN TPRelease(S, pid)
       ELSE Sleep(S, pid, STEP)

(* -------------------------------- do_work ------------------------------- *)
AftOrUnset(S, t) == IF S.tasks[t].aft = NoneT THEN -K ELSE S.tasks[t].aft
CrossPreds(S, t, m) ==
    IF IsIngestTask(t) THEN {}
    ELSE {p \in Pred(t[1], t[2]) : S.tasks[<<t[1], p>>].m # m}
(* volume / bandwidth in ticks; configurations keep it integral *)
TransferTicks(o, p, k, m) == (Vol(o, p, k) * K) \div Bw(m)
TransferWait(S, t, m) ==
    LET arr == {AftOrUnset(S, <<t[1], p>>) + TransferTicks(t[1], p, t[2], m) - S.now
                  : p \in CrossPreds(S, t, m)}
    IN SetMax(arr \cup {0})

WorkStart(S, pid) ==
    LET t == <<pid[2], pid[3]>>
        m == S.procs[pid].m
        dur == IF IsIngestTask(t) THEN S.tasks[t].dur
               ELSE IF Comp(t[1], t[2]) > 0 \/ Data(t[1], t[2]) > 0
               THEN RawRuntime(t[1], t[2], m) ELSE S.tasks[t].dur
        total == dur + Extra(t)
        S1 == [S EXCEPT !.tasks[t].status = "RUNNING", !.tasks[t].ast = S.now,
                        !.tasks[t].dur = dur,
                        !.procs[pid] = Loc(TRUE, total, m, "work", EmptyFn)]
    IN Sleep(S1, pid, (MaxI(total, 1) - 1) * STEP)

WorkEnd(S, pid) ==
    LET t == <<pid[2], pid[3]>>
        tk == S.tasks[t]
        total == S.procs[pid].left
        late == tk.dur < total
        aft == S.now + STEP
        eft == IF IsIngestTask(t) \/ t \notin DOMAIN cfg.plan THEN 0 ELSE cfg.plan[t].eft * K
        S1 == [S EXCEPT !.tasks[t].aft = aft,
                        !.tasks[t].flag = @ \/ late \/ aft > eft,
                        !.tasks[t].doff = IF late THEN @ + (total - tk.dur) * K ELSE @]
    IN EndProc(S1, pid)

WKStep(S, pid) ==
    LET t == <<pid[2], pid[3]>>
        loc == S.procs[pid]
    IN IF loc.ph = "new"
       THEN IF CrossPreds(S, t, loc.m) # {}
            THEN Sleep([S EXCEPT !.procs[pid] = Loc(TRUE, 0, loc.m, "wait", EmptyFn)],
                       pid, TransferWait(S, t, loc.m))
            ELSE WorkStart(S, pid)
       ELSE IF loc.ph = "wait" THEN WorkStart(S, pid)
       ELSE WorkEnd(S, pid)

(* -------------------------------- Cluster ------------------------------- *)
CluTick(S) == Sleep([S EXCEPT !.procs[Actor("Clu")].started = TRUE], Actor("Clu"), STEP)

(* ------------------------------- Scheduler ------------------------------ *)
NewPlanTask(o, k) ==
    LET t == <<o, k>>
        st == t \in DOMAIN cfg.plan
    IN [ status |-> "UNSCHEDULED", m |-> NoM, alloc |-> NoneT, ast |-> NoneT, aft |-> NoneT,
         dur |-> IF st THEN cfg.plan[t].eft - cfg.plan[t].est ELSE 0,
         flag |-> FALSE, doff |-> 0, pm |-> IF st THEN cfg.plan[t].m ELSE NoM ]
AtLoc0 == Loc(FALSE, 0, NoM, "", EmptyFn)
SchTick(S) ==
    LET pid == Actor("Sch")
        S0 == [S EXCEPT !.procs[pid].started = TRUE]
    IN IF S.buf.hotStored # <<>> /\ ~OverThreshold(S)
       THEN LET o == SeqLast(S.buf.hotStored)
                S1 == [S0 EXCEPT !.buf.hotStored = SeqFront(@),
                                 !.buf.hotSched = @ \cup {o},
                                 !.obs[o].planned = TRUE,
                                 !.obs[o].remaining = Nodes(o),
                                 !.tasks = [t \in DOMAIN @ \ {<<o, k>> : k \in Nodes(o)} |-> @[t]]
                                           @@ [t \in {<<o, k>> : k \in Nodes(o)} |-> NewPlanTask(o, t[2])]]
                S2 == IF o \in S.sch.queue THEN S1
                      ELSE EmitSch(Spawn([S1 EXCEPT !.sch.queue = @ \cup {o}], AtPid(o), AtLoc0),
                                   o, "queue", "added")
            IN Sleep(S2, pid, STEP)
       ELSE Sleep(S0, pid, STEP)

(* --------------------------------- Buffer ------------------------------- *)
H2cPid(n) == Pid("H2C", "", 0, n)
C2hPid(n) == Pid("C2H", "", 0, n)
BufTick(S) ==
    LET pid == Actor("Buf")
        S0 == [S EXCEPT !.procs[pid].started = TRUE]
        over == OverThreshold(S)
        skip == over /\ (S.now \in S.buf.storedTimes \/ S.buf.hotStored = <<>>)   \* `continue`
        crash == FALSE
        h2c == over /\ ~skip /\ ~crash
               /\ ColdHasCapacity(S, S.obs[SeqLast(S.buf.hotStored)].data)
        S1 == IF h2c THEN Spawn([S0 EXCEPT !.nmove = @ + 1], H2cPid(S0.nmove + 1), Loc0) ELSE S0
        c2h == ~skip /\ ~crash
               /\ Below60(S.buf.hotFree + S.buf.dataLeft, cfg.hotCap)
               /\ S.buf.coldStored # <<>>
               /\ Below60(HotUsed(S) + S.obs[SeqLast(S.buf.coldStored)].data, cfg.hotCap)
        S2 == IF c2h THEN Spawn([S1 EXCEPT !.nmove = @ + 1], C2hPid(S1.nmove + 1), Loc0) ELSE S1
    IN IF crash THEN Die(Raise(S0, "IndexError"), pid) ELSE Sleep(S2, pid, STEP)

(* tier moves: both sides move Min(left, slower of the two rates) per step; *)
(* a non-positive cold rate means `real time` (the whole observation at    *)
(* once).  A move whose destination lacks room is refused and leaves       *)
(* everything as it was.                                                   *)
MoveRate == IF cfg.coldRate > 0 THEN MinI(cfg.hotRate, cfg.coldRate) ELSE cfg.coldRate
Chunk(S, o, left) == IF MoveRate > 0 THEN MinI(left, MoveRate) ELSE S.obs[o].data
H2CMove(S, pid) ==
    LET loc == S.procs[pid]
        o == loc.ph
        left == loc.left
    IN IF left <= 0 THEN EndProc(EmitBuf(S, o, "transfer", "stopped"), pid)
       ELSE LET x == Chunk(S, o, left)
                left2 == left - x
                S1 == [S EXCEPT !.buf.coldFree = @ - x, !.buf.hotFree = @ + x,
                                !.buf.coldTr = IF left2 = 0 THEN "" ELSE o,
                                !.buf.coldStored = IF left2 = 0 THEN Append(@, o) ELSE @,
                                (* the source tier only fills an empty transfer slot (two *)
                                (* concurrent moves share the slot, the code's own TODO)  *)
                                !.buf.hotTr = IF left2 = 0 THEN "" ELSE (IF @ = "" THEN o ELSE @),
                                !.buf.dataLeft = left2,
                                !.procs[pid].left = left2]
            IN Sleep(S1, pid, STEP)
H2CStep(S, pid) ==
    LET loc == S.procs[pid]
    IN IF ~loc.started
       THEN IF S.buf.hotStored = <<>> THEN Die(Raise(S, "RuntimeError"), pid)
            ELSE LET o == SeqLast(S.buf.hotStored)
                     size == S.obs[o].data
                     S1 == [S EXCEPT !.buf.hotStored = SeqFront(@), !.buf.hotTr = o,
                                     !.buf.dataLeft = size]
                 IN IF ~ColdHasCapacity(S1, size)
                    THEN EndProc([S1 EXCEPT !.buf.hotStored = Append(@, o), !.buf.hotTr = "",
                                            !.buf.dataLeft = 0], pid)
                    ELSE LET S2 == EmitBuf([S1 EXCEPT !.procs[pid] =
                                               [Loc(TRUE, size, NoM, "", EmptyFn) EXCEPT !.ph = o]],
                                           o, "transfer", "started")
                         IN H2CMove(S2, pid)
       ELSE H2CMove(S, pid)

C2HMove(S, pid) ==
    LET loc == S.procs[pid]
        o == loc.ph
        left == loc.left
        r == MinI(cfg.hotRate, cfg.coldRate)
    IN IF left <= 0 THEN EndProc(EmitBuf(S, o, "transfer", "stopped"), pid)
       ELSE LET x == IF r > 0 THEN MinI(left, r) ELSE S.obs[o].data
                l2 == left - x
                S1 == [S EXCEPT !.buf.hotFree = @ - x, !.buf.coldFree = @ + x,
                                !.buf.hotTr = IF l2 = 0 THEN "" ELSE o,
                                !.buf.hotStored = IF l2 = 0 THEN Append(@, o) ELSE @,
                                !.buf.coldTr = IF l2 = 0 THEN "" ELSE (IF @ = "" THEN o ELSE @),
                                !.procs[pid].left = l2]
            IN Sleep(S1, pid, STEP)
C2HStep(S, pid) ==
    LET loc == S.procs[pid]
    IN IF ~loc.started
       THEN IF S.buf.coldStored = <<>> THEN Die(Raise(S, "RuntimeError"), pid)
            ELSE LET o == SeqLast(S.buf.coldStored)
                     size == S.obs[o].data
                     S1 == [S EXCEPT !.buf.coldStored = SeqFront(@), !.buf.coldTr = o]
                 IN IF ~HotHasCapacity(S1, size)
                    THEN EndProc([S1 EXCEPT !.buf.coldStored = Append(@, o), !.buf.coldTr = ""], pid)
                    ELSE LET S2 == EmitBuf([S1 EXCEPT !.procs[pid] =
                                               [Loc(TRUE, size, NoM, "", EmptyFn) EXCEPT !.ph = o]],
                                           o, "transfer", "started")
                         IN C2HMove(S2, pid)
       ELSE C2HMove(S, pid)
=============================================================================
