----------------------------- MODULE TraceConv -----------------------------
(* Conversion of the harness' JSON (configuration and logged states) into  *)
(* the values the specification works with.                                *)
EXTENDS TopSimStep, Json, IOUtils

RangeOf(s) == {s[i] : i \in 1..Len(s)}
Pick(s, P(_)) == CHOOSE x \in RangeOf(s) : P(x)

CfgOf(j) ==
    LET ms == RangeOf(j.machines)
        os == RangeOf(j.obs)
        obsRec(r) ==
            LET ns == RangeOf(r.wf.nodes)
                es == RangeOf(r.wf.edges)
            IN [ est |-> r.est, estT |-> r.estT, dur |-> r.dur, demand |-> r.demand, ing |-> r.ing,
                 rate |-> r.rate, torder |-> r.torder,
                 nodes |-> {n.k : n \in ns},
                 comp |-> [k \in {n.k : n \in ns} |-> (CHOOSE n \in ns : n.k = k).comp],
                 data |-> [k \in {n.k : n \in ns} |-> (CHOOSE n \in ns : n.k = k).data],
                 edges |-> {<<e.u, e.v>> : e \in es},
                 vol |-> [uv \in {<<e.u, e.v>> : e \in es} |->
                            (CHOOSE e \in es : e.u = uv[1] /\ e.v = uv[2]).vol] ]
    IN [ K |-> j.K,
         mach |-> [m \in {x.id : x \in ms} |->
                     LET r == CHOOSE x \in ms : x.id = m IN [cpu |-> r.cpu, bw |-> r.bw]],
         arrays |-> j.arrays, maxIngest |-> j.maxIngest,
         hotCap |-> j.hotCap, coldCap |-> j.coldCap,
         hotRate |-> j.hotRate, coldRate |-> j.coldRate,
         order |-> [i \in 1..Len(j.obs) |-> j.obs[i].o],
         obs |-> [o \in {r.o : r \in os} |-> obsRec(CHOOSE r \in os : r.o = o)],
         alg |-> j.alg, parts |-> j.parts, minPer |-> j.minPer,
         split |-> [o \in {r.o : r \in RangeOf(j.split)} |->
                      LET r == CHOOSE r \in RangeOf(j.split) : r.o = o IN <<r.min, r.max>>],
         extra |-> [t \in {<<r.o, r.k>> : r \in RangeOf(j.extra)} |->
                      (CHOOSE r \in RangeOf(j.extra) : r.o = t[1] /\ r.k = t[2]).x],
         plan |-> [t \in {<<r.o, r.k>> : r \in RangeOf(j.plan)} |->
                     LET r == CHOOSE r \in RangeOf(j.plan) : r.o = t[1] /\ r.k = t[2]
                     IN [m |-> r.m, est |-> r.est, eft |-> r.eft]],
         advRounds |-> j.advRounds, advProv |-> j.advProv,
         perm |-> RangeOf(j.perm), canon |-> FALSE, seg |-> FALSE, api |-> j.api ]

KM(seq) == [k \in {r.k : r \in RangeOf(seq)} |-> (CHOOSE r \in RangeOf(seq) : r.k = k).m]

(* logged full state (JSON) -> specification state *)
Abs(c) ==
    [ now |-> c.now,
      cl |-> [ avail |-> RangeOf(c.cl.avail), ingest |-> RangeOf(c.cl.ingest),
               occ |-> RangeOf(c.cl.occ),
               idle |-> [o \in {r.o : r \in RangeOf(c.cl.idle)} |->
                           RangeOf((CHOOSE r \in RangeOf(c.cl.idle) : r.o = o).ms)],
               running |-> {<<r.o, r.k>> : r \in RangeOf(c.cl.running)},
               fin |-> [t \in {<<r.o, r.k>> : r \in RangeOf(c.cl.fin)} |->
                          (CHOOSE r \in RangeOf(c.cl.fin) : r.o = t[1] /\ r.k = t[2]).v],
               uAvail |-> c.cl.uAvail, uRun |-> c.cl.uRun, uFin |-> c.cl.uFin,
               uIng |-> c.cl.uIng, numProv |-> c.cl.numProv,
               ingStatus |-> c.cl.ingStatus ],
      tasks |-> [t \in {<<r.o, r.k>> : r \in RangeOf(c.tasks)} |->
                   LET r == CHOOSE r \in RangeOf(c.tasks) : r.o = t[1] /\ r.k = t[2]
                   IN [ status |-> r.status, m |-> r.m, alloc |-> r.alloc, ast |-> r.ast, aft |-> r.aft,
                        dur |-> r.dur, flag |-> r.flag, doff |-> r.doff, pm |-> r.pm ]],
      obs |-> [o \in {r.o : r \in RangeOf(c.obs)} |->
                 LET r == CHOOSE r \in RangeOf(c.obs) : r.o = o
                 IN [ status |-> r.status, ast |-> r.ast, data |-> r.data,
                      planned |-> r.planned, remaining |-> RangeOf(r.remaining),
                      planAst |-> r.planAst ]],
      tel |-> [use |-> c.tel.use, flag |-> c.tel.flag],
      sch |-> [ queue |-> RangeOf(c.sch.queue), prov |-> c.sch.prov, pend |-> c.sch.pend,
                status |-> c.sch.status, doff |-> c.sch.doff ],
      buf |-> [ hotFree |-> c.buf.hotFree, coldFree |-> c.buf.coldFree,
                hotStored |-> c.buf.hotStored, hotSched |-> RangeOf(c.buf.hotSched),
                hotFin |-> RangeOf(c.buf.hotFin), hotTr |-> c.buf.hotTr,
                coldStored |-> c.buf.coldStored, coldTr |-> c.buf.coldTr,
                dataLeft |-> c.buf.dataLeft, storedTimes |-> RangeOf(c.buf.storedTimes) ],
      ev |-> [ tel |-> c.ev.tel, sch |-> c.ev.sch, buf |-> c.ev.buf ],
      mon |-> [rows |-> c.mon.rows, logN |-> c.mon.log],
      procs |-> [p \in {r.pid : r \in RangeOf(c.procs)} |->
                   LET r == CHOOSE r \in RangeOf(c.procs) : r.pid = p
                   IN [ started |-> r.started, left |-> r.left, m |-> r.m, ph |-> r.ph,
                        sched |-> KM(r.sched) ]],
      queue |-> [i \in 1..Len(c.queue) |-> [t |-> c.queue[i].t, p |-> c.queue[i].p, pid |-> c.queue[i].pid]],
      pend |-> "",
      crashed |-> c.crashed,
      nmove |-> c.nmove ]
=============================================================================
