---------------------------- MODULE TopSimState ----------------------------
(* The abstract state of a topsim simulation and the elementary updates on  *)
(* it.  Everything is a function from a state record to a state record so   *)
(* that one process resume (= one SimPy event, the only atomic unit the     *)
(* code has) can be written as a LET chain, and so that the same operators  *)
(* serve model checking, trace validation and replay generation.            *)
EXTENDS TopSimBase

EmptyFn == [x \in {} |-> 0]

Loc(started, left, m, ph, sched) ==
    [started |-> started, left |-> left, m |-> m, ph |-> ph, sched |-> sched]
Loc0 == Loc(FALSE, 0, NoM, "", EmptyFn)

ActorKinds == <<"Mon", "Tel", "Clu", "Sch", "Buf">>
StopPid == <<"STOP", "", 0, 0>>
IsStop(e) == e.pid[1] = "STOP"

InitState ==
    [ now |-> 0,
      cl |-> [ avail |-> Machines, ingest |-> {}, occ |-> {}, idle |-> EmptyFn,
               running |-> {}, fin |-> EmptyFn,
               uAvail |-> Cardinality(Machines), uRun |-> 0, uFin |-> 0,
               uIng |-> 0, numProv |-> 0, ingStatus |-> FALSE ],
      tasks |-> EmptyFn,
      obs |-> [o \in ObsNames |->
                 [ status |-> "WAITING", ast |-> NoneT, data |-> 0,
                   planned |-> FALSE, remaining |-> {}, planAst |-> NoneT ]],
      tel |-> [use |-> 0, flag |-> FALSE],
      sch |-> [queue |-> {}, prov |-> 0, pend |-> 0, status |-> "ONTIME", doff |-> 0],
      buf |-> [ hotFree |-> cfg.hotCap, coldFree |-> cfg.coldCap,
                hotStored |-> <<>>, hotSched |-> {}, hotFin |-> {}, hotTr |-> "",
                coldStored |-> <<>>, coldTr |-> "", dataLeft |-> 0,
                storedTimes |-> {} ],
      ev |-> [tel |-> <<>>, sch |-> <<>>, buf |-> <<>>],
      mon |-> [rows |-> 0, logN |-> 0],
      procs |-> [p \in {Actor(ActorKinds[i]) : i \in 1..5} |-> Loc0],
      queue |-> [i \in 1..5 |-> [t |-> 0, p |-> URGENT, pid |-> Actor(ActorKinds[i])]],
      pend |-> "",          \* exception raised inside the running resume
      crashed |-> "",       \* exception that escaped env.run (terminal)
      nmove |-> 0 ]         \* number of tier-move processes created so far

(* ------------------------- elementary updates --------------------------- *)
Sleep(S, pid, d) ==
    [S EXCEPT !.queue = QInsert(@, [t |-> S.now + d, p |-> NORMAL, pid |-> pid])]
Spawn(S, pid, loc) ==
    [S EXCEPT !.procs = @ @@ (pid :> loc),
              !.queue = QInsert(@, [t |-> S.now, p |-> URGENT, pid |-> pid])]
EndProc(S, pid) == [S EXCEPT !.procs = RemoveKey(@, pid)]
SetLoc(S, pid, loc) == [S EXCEPT !.procs[pid] = loc]
Raise(S, type) == IF S.pend = "" THEN [S EXCEPT !.pend = type] ELSE S
(* a process that raised dies; SimPy schedules its (failed) end event as a *)
(* NORMAL event at the current time, and the exception escapes when that   *)
(* event is processed                                                      *)
Die(S, pid) ==
    [S EXCEPT !.procs = RemoveKey(@, pid), !.pend = "",
              !.queue = QInsert(@, [t |-> S.now, p |-> NORMAL,
                                    pid |-> <<"CRASH", S.pend, 0, 0>>])]
Finish(S, pid) == IF S.pend # "" THEN Die(S, pid) ELSE S

EmitTel(S, o, r, e) == [S EXCEPT !.ev.tel = Append(@, Ev(S.now, o, r, e))]
EmitSch(S, o, r, e) == [S EXCEPT !.ev.sch = Append(@, Ev(S.now, o, r, e))]
EmitBuf(S, o, r, e) == [S EXCEPT !.ev.buf = Append(@, Ev(S.now, o, r, e))]

(* ------------------------------ queries --------------------------------- *)
HotUsed(S) == cfg.hotCap - S.buf.hotFree
(* x / cap > 0.6 and x / cap < 0.6 without products that leave TLC's 32-bit *)
(* integers (capacities of 10^9 and more are realistic)                      *)
Floor60(cap) == 6 * (cap \div 10) + (6 * (cap % 10)) \div 10            \* floor(0.6 cap)
Ceil60(cap) == 6 * (cap \div 10) + (6 * (cap % 10) + 9) \div 10         \* ceil(0.6 cap)
Above60(x, cap) == x > Floor60(cap)
Below60(x, cap) == x < Ceil60(cap)
OverThreshold(S) == Above60(HotUsed(S), cfg.hotCap)
ColdHasCapacity(S, size) ==
    S.buf.coldFree - (size + IF S.buf.coldTr # "" THEN S.obs[S.buf.coldTr].data ELSE 0) >= 0
HotHasCapacity(S, size) ==
    S.buf.hotFree - (size + IF S.buf.hotTr # "" THEN S.obs[S.buf.hotTr].data ELSE 0) >= 0
IdleOf(S, o) == IF o \in DOMAIN S.cl.idle THEN S.cl.idle[o] ELSE {}
TaskFin(S, t) == t \in DOMAIN S.cl.fin /\ S.cl.fin[t]

BufEmptyQ(S) == S.buf.hotFree = cfg.hotCap /\ S.buf.coldFree = cfg.coldCap
SchIdleQ(S) == S.sch.queue = {}
TelIdleQ(S) == (\A o \in ObsNames : S.obs[o].status = "FINISHED")
               /\ ~S.tel.flag /\ S.tel.use = 0
(* Cluster.is_idle after the and/or repair: nothing running, nothing busy *)
CluIdleQ(S) == S.cl.running = {} /\ S.cl.occ = {} /\ S.cl.ingest = {}
FinishedQ(S) == BufEmptyQ(S) /\ CluIdleQ(S) /\ SchIdleQ(S) /\ TelIdleQ(S)

(* the row Monitor.run appends (columns the properties mention) *)
Row(S) ==
    [ available_resources |-> S.cl.uAvail,
      ingest_resources |-> S.cl.uIng,
      running_tasks |-> S.cl.uRun,
      finished_tasks |-> S.cl.uFin,
      provisioned_observations |-> Cardinality(DOMAIN S.cl.idle),
      hot_buffer |-> S.buf.hotFree,
      cold_buffer |-> S.buf.coldFree,
      stored |-> Len(S.buf.coldStored) + Len(S.buf.hotStored),
      observations_waiting |-> Cardinality({o \in ObsNames : S.obs[o].status = "WAITING"}),
      observations_finished |-> Cardinality({o \in ObsNames : S.obs[o].status = "FINISHED"}),
      scheduler_observation_queue |-> Cardinality(S.sch.queue) ]
(* the same row computed from the pools and lists, not from the counters *)
TrueRow(S) ==
    [ Row(S) EXCEPT
      !.available_resources = Cardinality(Machines) - Cardinality(S.cl.ingest) - Cardinality(S.cl.occ),
      !.ingest_resources = Cardinality(S.cl.ingest),
      !.running_tasks = Cardinality(S.cl.running),
      !.finished_tasks = Cardinality({t \in DOMAIN S.cl.fin : S.cl.fin[t]}),
      (* waiting = has not begun, whatever status label the instrument uses *)
      !.observations_waiting = Cardinality({o \in ObsNames : S.obs[o].ast = NoneT}),
      (* free hot space = capacity minus what the resident observations deposited *)
      (* (as long as no tier move was ever made: then everything resides in hot)  *)
      !.hot_buffer = IF S.nmove = 0
                     THEN cfg.hotCap - SumFunction([o \in ObsNames \ S.buf.hotFin |-> S.obs[o].data])
                     ELSE @ ]
=============================================================================
