------------------------------- MODULE Props -------------------------------
(* The listed properties as predicates over specification states.           *)
(*   Inv_*(X)      state predicates (every reachable / every logged state)  *)
(*   Tr_*(A, B)    step predicates (every spec step / every pair of         *)
(*                 consecutive logged states)                               *)
(*   End_*(X)      predicates on the state in which start() returned        *)
(* They are label-independent: events are recognised from the difference    *)
(* between A and B, not from the name of the process that ran.  The same    *)
(* operators are INVARIANTs / action properties of the model-checking       *)
(* instances and the L1 clauses of trace validation.                        *)
EXTENDS TopSimStep

Card(s) == Cardinality(s)
LivePids(X, kind) == {p \in DOMAIN X.procs : p[1] = kind}
TaskOf(p) == <<p[2], p[3]>>
StatusRank(s) == CASE s = "UNSCHEDULED" -> 1 [] s = "SCHEDULED" -> 2
                   [] s = "RUNNING" -> 3 [] s = "FINISHED" -> 4 [] OTHER -> 0
ObsRank(s) == CASE s = "WAITING" -> 1 [] s = "RUNNING" -> 2 [] s = "FINISHED" -> 3 [] OTHER -> 0
Reserved(X) == UNION {X.cl.idle[o] : o \in DOMAIN X.cl.idle}
Boundary(A, B) == A.now < B.now       \* B is the first state of a new instant

(* ------------------------------- C01 ------------------------------------ *)
(* a machine never executes two tasks at once: the live do_work processes  *)
(* (and the live claims) are injective in their machine                    *)
Inv_C01_exec(X) ==
    \A p, q \in LivePids(X, "WK") : p # q => X.procs[p].m # X.procs[q].m
Inv_C01_claim(X) ==
    \A p, q \in {r \in LivePids(X, "TP") : X.procs[r].started} :
        p # q => X.procs[p].m # X.procs[q].m
Inv_C01_pool(X) ==
    \A p \in LivePids(X, "WK") : X.procs[p].m \in X.cl.ingest \cup X.cl.occ
(* a machine that is busy is never claimed again *)
Tr_C01_noreclaim(A, B) ==
    \A p \in LivePids(B, "TP") :
        (B.procs[p].started /\ (p \notin DOMAIN A.procs \/ ~A.procs[p].started))
        => \A q \in LivePids(A, "TP") \ {p} : A.procs[q].started => A.procs[q].m # B.procs[p].m

(* ------------------------------- C02 ------------------------------------ *)
Inv_C02_partition(X) ==
    /\ X.cl.avail \cap X.cl.ingest = {} /\ X.cl.avail \cap X.cl.occ = {}
    /\ X.cl.ingest \cap X.cl.occ = {}
    /\ Reserved(X) \cap (X.cl.avail \cup X.cl.ingest \cup X.cl.occ) = {}
    /\ \A a, b \in DOMAIN X.cl.idle : a # b => X.cl.idle[a] \cap X.cl.idle[b] = {}
    /\ X.cl.avail \cup X.cl.ingest \cup X.cl.occ \cup Reserved(X) = Machines
Inv_C02_counts(X) ==
    /\ X.cl.uRun = Card(X.cl.running)
    /\ X.cl.uFin = Card({t \in DOMAIN X.cl.fin : X.cl.fin[t]})
    /\ X.cl.uAvail = Card(Machines) - Card(X.cl.running)
Inv_C02_numprov(X) == X.cl.numProv = Card(DOMAIN X.cl.idle)
(* at the beginning of an instant the busy pools hold exactly the running tasks *)
Tr_C02_boundary(A, B) ==
    Boundary(A, B) => Card(A.cl.running) = Card(A.cl.ingest) + Card(A.cl.occ)
End_C02(X) == X.cl.avail = Machines /\ DOMAIN X.cl.idle = {} /\ X.cl.numProv = 0

(* ------------------------------- C03 ------------------------------------ *)
Started(A, B) == {t \in DOMAIN B.tasks : B.tasks[t].ast # NoneT
                                          /\ (t \notin DOMAIN A.tasks \/ A.tasks[t].ast = NoneT)}
Tr_C03_precedence(A, B) ==
    \A t \in Started(A, B) : ~IsIngestTask(t) =>
        \A p \in Pred(t[1], t[2]) :
            B.tasks[<<t[1], p>>].aft # NoneT /\ B.tasks[t].ast >= B.tasks[<<t[1], p>>].aft
Tr_C03_exact(A, B) ==
    \A t \in Started(A, B) : ~IsIngestTask(t) =>
        LET m == B.tasks[t].m
            arr == {B.tasks[<<t[1], p>>].aft + TransferTicks(t[1], p, t[2], m) :
                      p \in {p \in Pred(t[1], t[2]) : B.tasks[<<t[1], p>>].m # m}}
        IN B.tasks[t].ast = SetMax(arr \cup {B.tasks[t].alloc})

(* ------------------------------- C04 ------------------------------------ *)
Tr_C04_once(A, B) ==
    /\ \A t \in DOMAIN A.tasks : t \in DOMAIN B.tasks =>
         /\ StatusRank(A.tasks[t].status) <= StatusRank(B.tasks[t].status)
         /\ A.tasks[t].ast # NoneT => B.tasks[t].ast = A.tasks[t].ast
         /\ A.tasks[t].aft # NoneT => B.tasks[t].aft = A.tasks[t].aft
    /\ \A t \in DOMAIN A.tasks : t \in DOMAIN B.tasks \/ ~IsIngestTask(t)
PlanTasks == UNION {{<<o, k>> : k \in Nodes(o)} : o \in ObsNames}
IngestTasks == UNION {{<<o, -i>> : i \in 1..OCfg(o).ing} : o \in ObsNames}
End_C04(X) ==
    /\ DOMAIN X.tasks = PlanTasks \cup IngestTasks
    /\ \A t \in DOMAIN X.tasks :
         X.tasks[t].status = "FINISHED" /\ X.tasks[t].ast # NoneT /\ X.tasks[t].aft # NoneT
    /\ \A o \in ObsNames : X.obs[o].status = "FINISHED"
    /\ X.cl.running = {} /\ X.sch.queue = {} /\ End_C02(X)
    /\ X.buf.hotFree = cfg.hotCap /\ X.buf.coldFree = cfg.coldCap
    /\ LivePids(X, "WK") = {} /\ LivePids(X, "TP") = {}

(* ------------------------------- C06 ------------------------------------ *)
Ended(A, B) == {t \in DOMAIN B.tasks : B.tasks[t].aft # NoneT
                                        /\ (t \notin DOMAIN A.tasks \/ A.tasks[t].aft = NoneT)}
ExpectedSteps(t, m) ==
    IF IsIngestTask(t) THEN OCfg(t[1]).dur
    ELSE MaxI(1, RawRuntime(t[1], t[2], m) + Extra(t))
Tr_C06_runtime(A, B) ==
    \A t \in Ended(A, B) :
        (IsIngestTask(t) \/ RawRuntime(t[1], t[2], B.tasks[t].m) > 0 \/ ~(t \in DOMAIN cfg.plan))
        => B.tasks[t].aft - B.tasks[t].ast = ExpectedSteps(t, B.tasks[t].m) * K

(* ------------------------------- C07 ------------------------------------ *)
Inv_C07_bounds(X) ==
    /\ 0 <= X.buf.hotFree /\ X.buf.hotFree <= cfg.hotCap
    /\ 0 <= X.buf.coldFree /\ X.buf.coldFree <= cfg.coldCap
Inv_C07_conserved(X) ==
    (cfg.hotCap - X.buf.hotFree) + (cfg.coldCap - X.buf.coldFree)
      = SumFunction([o \in ObsNames \ X.buf.hotFin |-> X.obs[o].data])
(* at the beginning of an instant an observation has deposited rate x      *)
(* elapsed steps, capped at its duration                                   *)
Tr_C07_deposit(A, B) ==
    Boundary(A, B) =>
      \A o \in ObsNames :
         LET ob == A.obs[o]
         IN (ob.ast # NoneT /\ ob.status # "WAITING") =>
              ob.data = OCfg(o).rate * MinI(OCfg(o).dur, CeilDiv(B.now - ob.ast, K))
Tr_C07_release(A, B) ==
    \A o \in B.buf.hotFin \ A.buf.hotFin :
        /\ A.obs[o].data = ObsVol(o)
        (* ... and only when its own workflow has completed *)
        /\ A.obs[o].planned /\ \A k \in Nodes(o) : A.tasks[<<o, k>>].status = "FINISHED"
        /\ (B.buf.hotFree - A.buf.hotFree) + (B.buf.coldFree - A.buf.coldFree) = ObsVol(o)
End_C07(X) == X.buf.hotFree = cfg.hotCap /\ X.buf.coldFree = cfg.coldCap

(* ------------------------------- C08 ------------------------------------ *)
Begun(A, B) == {o \in ObsNames : A.obs[o].ast = NoneT /\ B.obs[o].ast # NoneT}
SumOver(s, f(_)) == SumFunction([x \in s |-> f(x)])
Tr_C08_begin(A, B) ==
    LET bg == Begun(A, B)
    IN bg # {} =>
         /\ \A o \in bg : B.now >= EstT(o)
         /\ cfg.arrays - A.tel.use
              + SumOver({o \in ObsNames : A.obs[o].status # "FINISHED" /\ B.obs[o].status = "FINISHED"},
                        LAMBDA o : OCfg(o).demand)      \* arrays handed back in the same telescope step
            >= SumOver(bg, LAMBDA o : OCfg(o).demand)
         /\ Card(A.cl.avail) >= SumOver(bg, LAMBDA o : OCfg(o).ing)
         /\ Card(A.cl.ingest) + SumOver(bg, LAMBDA o : OCfg(o).ing) <= cfg.maxIngest
         /\ \A o \in bg : A.buf.hotFree >= ObsVol(o) /\ A.buf.coldFree >= ObsVol(o)
(* the telescope's array count is the demand of the observations that have begun *)
(* and are not finished                                                          *)
Inv_C08_arrays(X) ==
    cfg.api \/ X.tel.use = SumOver({o \in ObsNames : X.obs[o].ast # NoneT /\ X.obs[o].status # "FINISHED"},
                                   LAMBDA o : OCfg(o).demand)
(* the scheduler's ingest budget counts exactly the machines of the         *)
(* observations whose ingest is under way (a refused or postponed           *)
(* observation books nothing)                                               *)
Inv_C08_budget(X) ==
    cfg.api \/ X.sch.prov = SumOver({o \in ObsNames : <<"AI", o, 0, 0>> \in DOMAIN X.procs},
                                    LAMBDA o : OCfg(o).ing)
Inv_C08_limits(X) ==
    /\ X.tel.use <= cfg.arrays /\ X.tel.use >= 0
    /\ Card(X.cl.ingest) <= cfg.maxIngest
Tr_C08_status(A, B) ==
    \A o \in ObsNames : ObsRank(A.obs[o].status) <= ObsRank(B.obs[o].status)
                        /\ (A.obs[o].ast # NoneT => B.obs[o].ast = A.obs[o].ast)
(* an observation is marked finished exactly one duration after it began *)
Tr_C08_finish(A, B) ==
    \A o \in ObsNames : (A.obs[o].status # "FINISHED" /\ B.obs[o].status = "FINISHED" /\ ~cfg.api)
                        => (B.obs[o].ast # NoneT /\ B.now = B.obs[o].ast + OCfg(o).dur * K)
(* at the beginning of an instant inside the observation exactly the       *)
(* pipeline's demand of machines holds its ingest tasks; none afterwards   *)
(* pool-based (label-independent): the ingest pool holds the demand of every *)
(* observation strictly inside its window; observations exactly at the end of *)
(* their window may or may not have released yet                              *)
Tr_C08_ingest(A, B) ==
    (Boundary(A, B) /\ ~cfg.api) =>      \* (component histories have no observations)
      LET inside == {o \in ObsNames : A.obs[o].ast # NoneT /\ A.obs[o].ast < B.now
                                       /\ B.now <= A.obs[o].ast + OCfg(o).dur * K - K}
          edge == {o \in ObsNames : A.obs[o].ast # NoneT /\ B.now > A.obs[o].ast + OCfg(o).dur * K - K
                                     /\ B.now <= A.obs[o].ast + OCfg(o).dur * K}
          lower == SumOver(inside, LAMBDA o : OCfg(o).ing)
          upper == lower + SumOver(edge, LAMBDA o : OCfg(o).ing)
      IN lower <= Card(A.cl.ingest) /\ Card(A.cl.ingest) <= upper
SystemIdle(X) ==
    /\ X.cl.running = {} /\ X.cl.ingest = {} /\ X.cl.occ = {} /\ DOMAIN X.cl.idle = {}
    /\ X.sch.queue = {} /\ X.tel.use = 0 /\ X.sch.prov = 0
    /\ X.buf.hotFree = cfg.hotCap /\ X.buf.coldFree = cfg.coldCap
(* an observation that falls due while the system is idle starts on time:  *)
(* checked on the telescope's own step at that instant (the only process   *)
(* that can begin an observation)                                          *)
TelRan(A, B) ==
    /\ \E i \in 1..Len(A.queue) : A.queue[i].pid = Actor("Tel") /\ A.queue[i].t = B.now
    /\ ~\E i \in 1..Len(B.queue) : B.queue[i].pid = Actor("Tel") /\ B.queue[i].t = B.now
Tr_C08_ontime(A, B) ==
    (TelRan(A, B) /\ SystemIdle(A)) =>
      LET due == {o \in ObsNames : A.obs[o].status = "WAITING" /\ A.obs[o].ast = NoneT
                                    /\ DueStep(o) = B.now}
          overdue == {o \in ObsNames : A.obs[o].status = "WAITING" /\ A.obs[o].ast = NoneT
                                        /\ DueStep(o) < B.now}
      IN (due # {} /\ overdue = {}) => \E o \in due : B.obs[o].ast = B.now

(* ------------------------------- C09 ------------------------------------ *)
NewClaims(A, B) == {p \in LivePids(B, "TP") : B.procs[p].started
                                               /\ (p \notin DOMAIN A.procs \/ ~A.procs[p].started)}
Tr_C09_onlyReserved(A, B) ==
    cfg.alg = "batch" =>
      \A p \in NewClaims(A, B) : p[3] > 0 => B.procs[p].m \in IdleOf(A, p[2])
Tr_C09_exclusive(A, B) ==
    cfg.alg = "batch" =>
      \A o \in DOMAIN A.cl.idle : \A m \in A.cl.idle[o] :
         \/ m \in IdleOf(B, o)
         \/ m \in B.cl.occ /\ \E p \in LivePids(B, "TP") : p[2] = o /\ p[3] > 0 /\ B.procs[p].m = m
         \/ o \notin DOMAIN B.cl.idle /\ m \in B.cl.avail
Inv_C09_count(X) == cfg.alg = "batch" => Card(DOMAIN X.cl.idle) <= cfg.parts
(* the counter that limits the number of reservations is the number of reservations *)
Inv_C09_counter(X) == cfg.alg = "batch" => X.cl.numProv = Card(DOMAIN X.cl.idle)
Tr_C09_size(A, B) ==
    cfg.alg = "batch" =>
      \A o \in DOMAIN B.cl.idle \ DOMAIN A.cl.idle :
         LET n == Card(B.cl.idle[o])
         IN IF o \in DOMAIN cfg.split
            THEN cfg.split[o][1] <= n /\ n <= cfg.split[o][2] /\ n >= cfg.minPer
            ELSE cfg.minPer <= n /\ n <= Card(Machines) \div cfg.parts
(* a reservation is made once: the machines it consists of (idle for it, or  *)
(* busy with one of its workflow's tasks) never grow afterwards             *)
Members(X, o) == IdleOf(X, o) \cup {X.procs[p].m : p \in {q \in LivePids(X, "TP") : q[2] = o /\ q[3] > 0 /\ X.procs[q].started}}
Tr_C09_fixed(A, B) ==
    cfg.alg = "batch" =>
      \A o \in DOMAIN A.cl.idle \cap DOMAIN B.cl.idle : Members(B, o) \subseteq Members(A, o)
(* ... and it goes back promptly: a reservation does not outlive the last   *)
(* task of its workflow by more than the allocation loop's two rounds       *)
(* (one to see the task finished, one to hand the machines back)            *)
Inv_C09_prompt(X) ==
    cfg.alg = "batch" =>
      \A o \in DOMAIN X.cl.idle :
         LET ts == {<<o, k>> : k \in Nodes(o)}
         IN (X.obs[o].planned /\ ts \subseteq DOMAIN X.tasks
             /\ \A t \in ts : X.tasks[t].status = "FINISHED" /\ X.tasks[t].aft # NoneT)
            => X.now <= SetMax({X.tasks[t].aft : t \in ts}) + 2 * K
Tr_C09_released(A, B) ==
    \A o \in A.sch.queue \ B.sch.queue : o \notin DOMAIN B.cl.idle

(* ------------------------------- C12 ------------------------------------ *)
(* (row contents are compared in the trace spec against TrueRow(A))        *)
Tr_C12_rowcount(A, B) ==
    /\ B.mon.rows >= A.mon.rows /\ B.mon.rows <= A.mon.rows + 1
    /\ B.mon.rows = A.mon.rows + 1 => B.mon.rows = B.now \div K + 1

(* ------------------------------- C15 ------------------------------------ *)
Tr_C15_flag(A, B) ==
    \A t \in Ended(A, B) : (~IsIngestTask(t) /\ Extra(t) > 0) => B.tasks[t].flag
Inv_C15_reported(X) ==
    \A o \in ObsNames : X.obs[o].planned =>
      \A k \in Nodes(o) \ X.obs[o].remaining :
         LET t == <<o, k>>
         IN (t \in DOMAIN X.tasks /\ X.tasks[t].status = "FINISHED" /\ Extra(t) > 0
             /\ RawRuntime(o, k, X.tasks[t].m) > 0)
            => X.sch.status = "DELAYED"

(* ------------------------------- C17 ------------------------------------ *)
Tr_C17_planned(A, B) ==
    cfg.alg = "plan" =>
      /\ \A p \in NewClaims(A, B) : p[3] > 0 => B.procs[p].m = cfg.plan[TaskOf(p)].m
      (* ... and the work itself starts on that machine *)
      /\ \A p \in LivePids(B, "WK") \ DOMAIN A.procs : p[3] > 0 => B.procs[p].m = cfg.plan[TaskOf(p)].m
      /\ \A t \in DOMAIN A.tasks : (t \in DOMAIN B.tasks /\ A.tasks[t].m # NoM) => B.tasks[t].m = A.tasks[t].m

(* ------------------------------- C18 ------------------------------------ *)
Movers(X) == {q \in DOMAIN X.procs : q[1] \in {"H2C", "C2H"} /\ X.procs[q].started}
(* what one moving step carries: the slower of the two tiers' rates; a       *)
(* non-positive cold rate is the configuration's way of saying `real time`   *)
(* (no rate limit: whatever is left moves at once)                           *)
StepAmount(before) == IF cfg.coldRate > 0 THEN MinI(before, MinI(cfg.hotRate, cfg.coldRate)) ELSE before
(* what leaves one tier enters the other, at the slower of the two rates    *)
Tr_C18_step(A, B) ==
    (A.buf.hotFree # B.buf.hotFree /\ A.buf.hotFin = B.buf.hotFin
     /\ \A o \in ObsNames : A.obs[o].data = B.obs[o].data)
    => /\ (B.buf.hotFree - A.buf.hotFree) = -(B.buf.coldFree - A.buf.coldFree)
       /\ \E q \in Movers(B) \cup Movers(A) :
            LET o == IF q \in Movers(B) THEN B.procs[q].ph ELSE A.procs[q].ph
                before == IF q \in Movers(A) THEN A.procs[q].left ELSE B.obs[o].data
                amount == IF B.buf.hotFree > A.buf.hotFree THEN B.buf.hotFree - A.buf.hotFree
                          ELSE A.buf.hotFree - B.buf.hotFree
            IN amount = StepAmount(before)
(* a finished move leaves the observation stored in exactly one tier and   *)
(* both transfer slots empty                                               *)
Tr_C18_done(A, B) ==
    \A q \in Movers(A) \ DOMAIN B.procs :
        LET o == A.procs[q].ph
        IN (B.pend = "" /\ ~\E e \in SeqToSet(B.queue) : e.pid[1] = "CRASH") =>
             /\ Cardinality({i \in 1..Len(B.buf.hotStored) : B.buf.hotStored[i] = o})
                + Cardinality({i \in 1..Len(B.buf.coldStored) : B.buf.coldStored[i] = o}) = 1
             /\ (Movers(B) = {} => (B.buf.hotTr = "" /\ B.buf.coldTr = ""))
(* a move that is refused (its process ends in its first step without     *)
(* having moved anything) leaves the buffer as it was                      *)
Tr_C18_refused(A, B) ==
    \A q \in {q \in DOMAIN A.procs : q[1] \in {"H2C", "C2H"} /\ ~A.procs[q].started} :
        (q \notin DOMAIN B.procs /\ B.buf.hotFree = A.buf.hotFree /\ B.buf.coldFree = A.buf.coldFree
         /\ ~\E e \in SeqToSet(B.queue) : e.pid[1] = "CRASH")
        => B.buf = A.buf
Inv_C18_nomove_raises(X) == ~\E e \in SeqToSet(X.queue) : e.pid[1] = "CRASH" /\ e.pid[2] = "RuntimeError" /\ Movers(X) # {}

(* ------------------------------- C19 ------------------------------------ *)
(* q: the five query results as the implementation (or the spec) gave them *)
Truth_C19(X, q) ==
    /\ q.cluIdle => (X.cl.running = {} /\ X.cl.ingest = {} /\ X.cl.occ = {}
                      (* ... and no task is in flight, whatever the cluster's lists say *)
                      /\ \A p \in DOMAIN X.procs : p[1] = "WK" => ~X.procs[p].started)
    /\ q.bufEmpty => (X.buf.hotFree = cfg.hotCap /\ X.buf.coldFree = cfg.coldCap
                       /\ \A o \in ObsNames \ X.buf.hotFin : X.obs[o].data = 0)   \* nothing resident
    (* ... an observation handed over for processing stays `scheduled` in the *)
    (* hot buffer exactly as long as the scheduler has it queued              *)
    /\ q.schIdle => (X.sch.queue = {} /\ (~cfg.api => X.buf.hotSched = {}))
    /\ q.telIdle => ((\A o \in ObsNames : X.obs[o].status = "FINISHED") /\ X.tel.use = 0)
    /\ q.fin <=> (q.cluIdle /\ q.bufEmpty /\ q.schIdle /\ q.telIdle)
SpecQueries(X) == [cluIdle |-> CluIdleQ(X), bufEmpty |-> BufEmptyQ(X), schIdle |-> SchIdleQ(X),
                   telIdle |-> TelIdleQ(X), fin |-> FinishedQ(X)]

(* --------------------------- feasibility --------------------------------- *)
(* each observation fits the telescope, the ingest limit, the cluster and  *)
(* both buffers on its own (DESIGN.md appendix C)                          *)
FeasibleCfg(c) ==
    /\ DOMAIN c.obs # {}
    /\ \A o \in DOMAIN c.obs :
         LET ob == c.obs[o]
         IN /\ ob.dur >= 1 /\ ob.demand <= c.arrays
            /\ ob.ing <= c.maxIngest /\ ob.ing <= Cardinality(DOMAIN c.mach)
            /\ ob.rate <= c.hotRate
            /\ ob.rate * ob.dur < c.hotCap /\ ob.rate * ob.dur <= c.coldCap
    /\ c.alg = "batch" =>
         /\ c.minPer >= 1 /\ c.parts >= 1
         /\ c.minPer <= Cardinality(DOMAIN c.mach) \div c.parts
         /\ \A o \in DOMAIN c.split : c.split[o][1] <= Cardinality(DOMAIN c.mach)
                                        /\ c.split[o][1] <= c.split[o][2] /\ c.split[o][1] >= 1

(* ------------------------------- C05 ------------------------------------ *)
(* serial bound in timesteps (DESIGN.md appendix C); LatencyC is the        *)
(* constant per-step latency granted per observation and per task           *)
LatencyC == 3
AllTasks == PlanTasks
SlowestRuntime(t) == SetMax({MaxI(1, RawRuntime(t[1], t[2], m)) : m \in Machines})
MaxWait(t) == SetMax({0} \cup {CeilDiv(Vol(t[1], p, t[2]), Bw(m)) : p \in Pred(t[1], t[2]), m \in Machines})
MoveTime(o) == (IF cfg.coldRate > 0 THEN CeilDiv(ObsVol(o), MaxI(1, MinI(cfg.hotRate, cfg.coldRate))) ELSE 1) + 1
SerialBound ==
    SetMax({DueStep(o) \div K : o \in ObsNames})
    + SumFunction([o \in ObsNames |-> OCfg(o).dur + 2 * MoveTime(o)])
    + SumFunction([t \in AllTasks |-> SlowestRuntime(t) + Extra(t) + MaxWait(t)])
    + LatencyC * (Card(ObsNames) + Card(AllTasks))
Inv_C05_bound(X) == X.now <= SerialBound * K

(* ------------------------------- C13 ------------------------------------ *)
(* final event log: sequence of [a, t, o, r, e] *)
CountIn(seq, x) == Card({i \in 1..Len(seq) : seq[i] = x})
LogTimes(log, o, a, r, e) == {log[i].t : i \in {i \in 1..Len(log) : log[i].o = o /\ log[i].a = a /\ log[i].r = r /\ log[i].e = e}}
LogCount(log, o, a, r, e) == Card({i \in 1..Len(log) : log[i].o = o /\ log[i].a = a /\ log[i].r = r /\ log[i].e = e})
End_C13_complete(log) ==
    \A o \in ObsNames :
      /\ LogCount(log, o, "instrument", "telescope", "started") = 1
      /\ LogCount(log, o, "instrument", "telescope", "finished") = 1
      /\ LogCount(log, o, "buffer", "buffer", "added") = 1
      /\ LogCount(log, o, "buffer", "buffer", "removed") = 1
      /\ LogCount(log, o, "scheduler", "queue", "added") = 1
      /\ LogCount(log, o, "scheduler", "queue", "removed") = 1
      /\ LogCount(log, o, "scheduler", "allocation", "started") = 1
      /\ LogCount(log, o, "scheduler", "allocation", "stopped") = 1
TimeOf(log, o, a, r, e) == CHOOSE t \in LogTimes(log, o, a, r, e) : TRUE
End_C13_order(log) ==
    \A o \in ObsNames :
      LET st == TimeOf(log, o, "instrument", "telescope", "started")
          fi == TimeOf(log, o, "instrument", "telescope", "finished")
          ba == TimeOf(log, o, "buffer", "buffer", "added")
          br == TimeOf(log, o, "buffer", "buffer", "removed")
          qa == TimeOf(log, o, "scheduler", "queue", "added")
          qr == TimeOf(log, o, "scheduler", "queue", "removed")
          as == TimeOf(log, o, "scheduler", "allocation", "started")
          ap == TimeOf(log, o, "scheduler", "allocation", "stopped")
      IN /\ st <= qa /\ qa <= as /\ as <= ap /\ ap <= qr
         /\ ba = st /\ br = ap /\ fi - st = OCfg(o).dur * K
(* timestamps equal the time of the transition they report (X = final state) *)
End_C13_times(log, X) ==
    \A o \in ObsNames :
      /\ TimeOf(log, o, "instrument", "telescope", "started") = X.obs[o].ast
      /\ TimeOf(log, o, "scheduler", "allocation", "started") = X.obs[o].planAst

(* ------------------------ bundles used by the checks --------------------- *)
InvNames == <<"C01.exec", "C01.claim", "C01.pool", "C02.partition", "C02.counts", "C02.numprov",
              "C07.bounds", "C07.conserved", "C08.limits", "C08.arrays", "C08.budget", "C09.count", "C09.counter", "C09.prompt", "C15.reported">>
InvHolds(X, n) ==
    CASE n = "C01.exec" -> Inv_C01_exec(X) [] n = "C01.claim" -> Inv_C01_claim(X)
      [] n = "C01.pool" -> Inv_C01_pool(X)
      [] n = "C02.partition" -> Inv_C02_partition(X) [] n = "C02.counts" -> Inv_C02_counts(X)
      [] n = "C02.numprov" -> Inv_C02_numprov(X)
      [] n = "C07.bounds" -> Inv_C07_bounds(X) [] n = "C07.conserved" -> Inv_C07_conserved(X)
      [] n = "C08.limits" -> Inv_C08_limits(X) [] n = "C08.arrays" -> Inv_C08_arrays(X)
      [] n = "C08.budget" -> Inv_C08_budget(X)
      [] n = "C09.count" -> Inv_C09_count(X)
      [] n = "C09.counter" -> Inv_C09_counter(X)
      [] n = "C09.prompt" -> Inv_C09_prompt(X)
      [] n = "C15.reported" -> Inv_C15_reported(X)
TrNames == <<"C01.noreclaim", "C02.boundary", "C03.precedence", "C03.exact", "C04.once",
             "C06.runtime", "C07.deposit", "C07.release", "C08.begin", "C08.status",
             "C08.ingest", "C08.ontime", "C08.finish", "C09.onlyReserved", "C09.exclusive", "C09.size", "C09.fixed",
             "C09.released", "C12.rowcount", "C15.flag", "C17.planned",
             "C18.step", "C18.done", "C18.refused">>
TrHolds(A, B, n) ==
    CASE n = "C01.noreclaim" -> Tr_C01_noreclaim(A, B) [] n = "C02.boundary" -> Tr_C02_boundary(A, B)
      [] n = "C03.precedence" -> (cfg.alg = "adv" \/ Tr_C03_precedence(A, B))
      [] n = "C03.exact" -> (cfg.alg = "adv" \/ Tr_C03_exact(A, B))
      [] n = "C04.once" -> Tr_C04_once(A, B) [] n = "C06.runtime" -> Tr_C06_runtime(A, B)
      [] n = "C07.deposit" -> Tr_C07_deposit(A, B) [] n = "C07.release" -> Tr_C07_release(A, B)
      [] n = "C08.begin" -> Tr_C08_begin(A, B) [] n = "C08.status" -> Tr_C08_status(A, B)
      [] n = "C08.ingest" -> Tr_C08_ingest(A, B) [] n = "C08.ontime" -> Tr_C08_ontime(A, B)
      [] n = "C08.finish" -> Tr_C08_finish(A, B)
      [] n = "C09.onlyReserved" -> Tr_C09_onlyReserved(A, B) [] n = "C09.exclusive" -> Tr_C09_exclusive(A, B)
      [] n = "C09.size" -> Tr_C09_size(A, B) [] n = "C09.released" -> Tr_C09_released(A, B)
      [] n = "C09.fixed" -> Tr_C09_fixed(A, B)
      [] n = "C12.rowcount" -> Tr_C12_rowcount(A, B) [] n = "C15.flag" -> Tr_C15_flag(A, B)
      [] n = "C17.planned" -> Tr_C17_planned(A, B)
      [] n = "C18.step" -> Tr_C18_step(A, B) [] n = "C18.done" -> Tr_C18_done(A, B)
      [] n = "C18.refused" -> Tr_C18_refused(A, B)
=============================================================================
