---------------------------- MODULE TopSimBase ----------------------------
(* Configuration accessors, SimPy queue discipline and small helpers shared *)
(* by every module of the topsim specification.                              *)
(*                                                                           *)
(* cfg (a VARIABLE that never changes inside a behaviour) is a record:       *)
(*   K          time scale: one timestep = K ticks (transfer waits may be    *)
(*              fractions of a step)                                         *)
(*   mach       [machine id -> [cpu, bw]]                                    *)
(*   arrays, maxIngest, hotCap, coldCap, hotRate, coldRate                   *)
(*   order      sequence of observation names (configuration order)          *)
(*   obs        [name -> [est, dur, demand, ing, rate, nodes, comp, data,    *)
(*                        edges, vol, torder]]                               *)
(*   alg        "batch" | "queue" | "plan" | "greedy" | "adv"                *)
(*   parts, minPer, split  batch parameters (split: [name -> <<min,max>>])   *)
(*   extra      [<<o,k>> -> extra delay in steps]   (absent key = 0)         *)
(*   plan       [<<o,k>> -> [m, est, eft]]          static plans             *)
(*   advRounds  number of rounds in which the adversary proposes arbitrarily *)
EXTENDS Integers, Sequences, FiniteSets, TLC, SequencesExt, FiniteSetsExt, Functions

VARIABLE cfg

NoneT == -1
NoM == ""

Machines == DOMAIN cfg.mach
ObsNames == DOMAIN cfg.obs
K == cfg.K
(* total: a machine that is not part of the cluster (a user algorithm may  *)
(* propose one) gets the speed of an arbitrary cluster machine             *)
Cpu(m) == IF m \in DOMAIN cfg.mach THEN cfg.mach[m].cpu ELSE cfg.mach[CHOOSE x \in DOMAIN cfg.mach : TRUE].cpu
Bw(m) == IF m \in DOMAIN cfg.mach THEN cfg.mach[m].bw ELSE cfg.mach[CHOOSE x \in DOMAIN cfg.mach : TRUE].bw
OCfg(o) == cfg.obs[o]
Nodes(o) == cfg.obs[o].nodes
Edges(o) == cfg.obs[o].edges
Pred(o, k) == {u \in Nodes(o) : <<u, k>> \in Edges(o)}
Succ(o, k) == {v \in Nodes(o) : <<k, v>> \in Edges(o)}
Vol(o, u, v) == cfg.obs[o].vol[<<u, v>>]
Comp(o, k) == cfg.obs[o].comp[k]
Data(o, k) == cfg.obs[o].data[k]
Extra(t) == IF t \in DOMAIN cfg.extra THEN cfg.extra[t] ELSE 0
ObsVol(o) == cfg.obs[o].rate * cfg.obs[o].dur
(* planned start in ticks (a coarser timestep unit may put it between two steps) *)
EstT(o) == cfg.obs[o].estT
DueStep(o) == ((cfg.obs[o].estT + cfg.K - 1) \div cfg.K) * cfg.K      \* first step boundary at or after it

MaxI(a, b) == IF a >= b THEN a ELSE b
MinI(a, b) == IF a <= b THEN a ELSE b
SetMax(S) == CHOOSE x \in S : \A y \in S : y <= x
CeilDiv(a, b) == (a + b - 1) \div b

(* runtime of workflow task <<o,k>> on machine m, in whole timesteps, as     *)
(* Task.calculate_runtime computes it (no lower bound of one here)           *)
RawRuntime(o, k, m) == MaxI(Comp(o, k) \div Cpu(m), Data(o, k) \div Bw(m))

IsIngestTask(t) == t[2] < 0

(* ---- SimPy queue: sorted by (time, priority), stable = event-id order --- *)
URGENT == 0
NORMAL == 1
QLe(e, f) == e.t < f.t \/ (e.t = f.t /\ e.p <= f.p)
QInsert(q, e) ==
    LET n == Cardinality({j \in 1..Len(q) : QLe(q[j], e)})
    IN SubSeq(q, 1, n) \o <<e>> \o SubSeq(q, n + 1, Len(q))
QRemoveAt(q, i) == SubSeq(q, 1, i - 1) \o SubSeq(q, i + 1, Len(q))

Pid(kind, o, k, n) == <<kind, o, k, n>>
Actor(kind) == <<kind, "", 0, 0>>

RemoveKey(f, x) == [y \in DOMAIN f \ {x} |-> f[y]]
SeqRemove(s, x) == SelectSeq(s, LAMBDA y : y # x)
SeqToSet(s) == {s[i] : i \in 1..Len(s)}
SeqLast(s) == s[Len(s)]
SeqFront(s) == SubSeq(s, 1, Len(s) - 1)

Ev(t, o, r, e) == [t |-> t, o |-> o, r |-> r, e |-> e]
=============================================================================
