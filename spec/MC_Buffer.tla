------------------------------ MODULE MC_Buffer ------------------------------
(* Tier moves of the buffer driven as a component (C18, C07): every size,   *)
(* rate pair (either tier may be the slower), capacity, both directions and *)
(* round trips, one move at a time.                                         *)
EXTENDS ClusterAPI, Props

VARIABLES S, depth
bvars == <<cfg, S, depth>>
CONSTANT MaxDepth

RealTime == -1      \* a non-positive cold rate: moves are not rate limited
Wf1 == [nodes |-> {1}, comp |-> (1 :> 1), data |-> (1 :> 0), edges |-> {}, vol |-> EmptyFn, torder |-> <<1>>]
Ob(size) == [est |-> 0, estT |-> 0, dur |-> size, demand |-> 1, ing |-> 1, rate |-> 1] @@ Wf1
BufCfgs ==
    {[ K |-> 1, mach |-> ("m0" :> [cpu |-> 1, bw |-> 1]),
       arrays |-> 4, maxIngest |-> 1, hotCap |-> hc, coldCap |-> cc, hotRate |-> hr, coldRate |-> cr,
       order |-> <<"a", "b">>, obs |-> ("a" :> Ob(sa) @@ "b" :> Ob(sb)),
       alg |-> "queue", parts |-> 1, minPer |-> 1, split |-> EmptyFn, extra |-> EmptyFn,
       plan |-> EmptyFn, advRounds |-> 0, advProv |-> 0, perm |-> {}, canon |-> TRUE, seg |-> FALSE, api |-> FALSE ] :
       sa \in 1..6, sb \in {2, 5}, hr \in 1..3, cr \in (1..3) \cup {RealTime}, hc \in {7, 12}, cc \in {4, 8, 12}}

BState == [ApiInit EXCEPT !.cl = InitState.cl] @@
          [obs |-> InitState.obs, buf |-> InitState.buf, ev |-> InitState.ev, nmove |-> 0,
           tel |-> InitState.tel, sch |-> InitState.sch, mon |-> InitState.mon]
BInit == cfg \in BufCfgs /\ S = BState /\ depth = 0

Store(T, o, inHot) ==
    LET size == ObsVol(o)
        free == IF inHot THEN T.buf.hotFree ELSE T.buf.coldFree
    IN IF free - size < 0 \/ T.obs[o].data > 0 THEN T
       ELSE [T EXCEPT !.obs[o].data = size, !.obs[o].status = "FINISHED",
                      !.buf.hotFree = IF inHot THEN @ - size ELSE @,
                      !.buf.coldFree = IF inHot THEN @ ELSE @ - size,
                      !.buf.hotStored = IF inHot THEN Append(@, o) ELSE @,
                      !.buf.coldStored = IF inHot THEN @ ELSE Append(@, o)]
NoMover(T) == ~\E q \in DOMAIN T.procs : q[1] \in {"H2C", "C2H"}
Step(T2) == depth < MaxDepth /\ S' = T2 /\ depth' = depth + 1 /\ UNCHANGED cfg
OpStore == \E o \in {"a", "b"}, h \in BOOLEAN : NoMover(S) /\ S.obs[o].data = 0 /\ Step(Store(S, o, h))
OpH2C == NoMover(S) /\ S.buf.hotStored # <<>> /\ Step(Spawn([S EXCEPT !.nmove = @ + 1], H2cPid(S.nmove + 1), Loc0))
OpC2H == NoMover(S) /\ S.buf.coldStored # <<>> /\ Step(Spawn([S EXCEPT !.nmove = @ + 1], C2hPid(S.nmove + 1), Loc0))
OpTick == \E x \in TickOutcomes(S) : x.raised = "" /\ Step(x.st)
OpTickRaise == \E x \in TickOutcomes(S) : x.raised # "" /\ Step([x.st EXCEPT !.crashed = x.raised])
BNext == OpStore \/ OpH2C \/ OpC2H \/ OpTick \/ OpTickRaise
BSpec == BInit /\ [][BNext]_bvars

I_bounds == Inv_C07_bounds(S)
I_conserved == Inv_C07_conserved(S)
I_noraise == S.crashed = ""
(* a move of size s at rate r = Min(hot, cold) completes after ceil(s / r)  *)
(* moving steps: the remaining amount after j steps is s - j r              *)
I_progress == \A q \in Movers(S) : S.procs[q].left >= 0 /\ S.procs[q].left <= S.obs[S.procs[q].ph].data
A_step == [][Tr_C18_step(S, S')]_bvars
A_done == [][Tr_C18_done(S, S')]_bvars
A_refused == [][Tr_C18_refused(S, S')]_bvars
(* the drain of one Tick moves exactly Min(left, Min(rates)) for the mover *)
A_tick == [][\A q \in Movers(S) : (q \in Movers(S') /\ S'.now > S.now) =>
                S.procs[q].left - S'.procs[q].left = StepAmount(S.procs[q].left)]_bvars
=============================================================================
