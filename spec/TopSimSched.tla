---------------------------- MODULE TopSimSched ----------------------------
(* Scheduler.allocate_tasks: one round = one resume.  The scheduling       *)
(* algorithm is a *set of possible proposals* (the contract of each        *)
(* shipped policy; every map for the adversary) - this is the `programs`   *)
(* quantifier of the properties.                                           *)
EXTENDS TopSimActors

Foreign == "foreign"

Task(o, k) == <<o, k>>
Remaining(S, o) == {k \in S.obs[o].remaining : S.tasks[Task(o, k)].status # "FINISHED"}
Ready(S, o, rem) ==
    {k \in rem : S.tasks[Task(o, k)].status = "UNSCHEDULED"
                 /\ \A p \in Pred(o, k) : TaskFin(S, Task(o, p))}

(* ---- cluster operations used by the batch policy / the scheduler ------- *)
Release(S, o) ==
    IF o \notin DOMAIN S.cl.idle THEN S
    ELSE IF S.cl.idle[o] = {} THEN S          \* empty reservation: entry stays
    ELSE [S EXCEPT !.cl.avail = @ \cup S.cl.idle[o],
                   !.cl.idle = RemoveKey(@, o),
                   !.cl.numProv = @ - 1]
ProvSize(S, o) ==
    LET av == Cardinality(S.cl.avail)
    IN IF o \in DOMAIN cfg.split
       THEN LET mn == cfg.split[o][1]  mx == cfg.split[o][2]
            IN IF av = 0 \/ av < mn THEN 0 ELSE MinI(av, mx)
       ELSE LET allowed == Cardinality(Machines) \div cfg.parts
            IN IF av < allowed THEN av ELSE allowed
(* possible outcomes of BatchProcessing._provision_resources: [ok, ms] *)
ProvOptions(S, o) ==
    IF cfg.alg = "adv" /\ cfg.advProv > 0 /\ AtPid(o) \in DOMAIN S.procs /\ S.procs[AtPid(o)].left = 0
       /\ o \notin DOMAIN S.cl.idle /\ S.cl.avail # {}
    THEN (* a user algorithm that reserves machines itself and leaves the release to the scheduler *)
         {[ok |-> TRUE, ms |-> ms] : ms \in kSubset(MinI(cfg.advProv, Cardinality(S.cl.avail)), S.cl.avail)}
    ELSE IF cfg.alg # "batch" THEN {[ok |-> TRUE, ms |-> {}]}
    ELSE IF o \in DOMAIN S.cl.idle THEN {[ok |-> TRUE, ms |-> {}]}
    ELSE IF S.cl.numProv < cfg.parts
    THEN LET n == ProvSize(S, o)
         IN IF n < cfg.minPer THEN {[ok |-> FALSE, ms |-> {}]}
            ELSE {[ok |-> TRUE, ms |-> ms] : ms \in kSubset(n, S.cl.avail)}
    ELSE {[ok |-> FALSE, ms |-> {}]}
ApplyProv(S, o, pv) ==
    IF pv.ms = {} THEN S
    ELSE [S EXCEPT !.cl.avail = @ \ pv.ms,
                   !.cl.idle = @ @@ (o :> pv.ms),
                   !.cl.numProv = @ + 1]
SplitRaises(S, o) ==
    cfg.alg = "batch" /\ o \in DOMAIN cfg.split /\ o \notin DOMAIN S.cl.idle
    /\ S.cl.numProv < cfg.parts /\ cfg.split[o][1] > Cardinality(Machines)

(* ---- proposal sets: functions from task index k to machine id ---------- *)
Merge(old, new) == [k \in DOMAIN old \cup DOMAIN new |->
                      IF k \in DOMAIN new THEN new[k] ELSE old[k]]
(* hand-out of free machines to ready tasks (batch: reserved idle machines; *)
(* queue: available machines).  Ready tasks are served in task-id order     *)
(* (the pool is iterated sorted, so that the outcome does not depend on the *)
(* interpreter's hash seed); which free machine each gets follows the       *)
(* cluster's list order, which the specification does not fix.              *)
LowestK(R, n) == {k \in R : Cardinality({j \in R : j < k}) < n}
HandOut(R, temp, sched) ==
    LET R2 == R \ DOMAIN sched
        n == MaxI(0, MinI(Cardinality(R2), Cardinality(temp) - Cardinality(DOMAIN sched)))
    IN {Merge(sched, f) : f \in Injection(LowestK(R2, n), temp)}
PlannedM(S, o, k) == S.tasks[Task(o, k)].pm
EstOf(o, k) == IF Task(o, k) \in DOMAIN cfg.plan THEN cfg.plan[Task(o, k)].est ELSE 0
PlanProposals(S, o, R, sched) ==
    LET R2 == {k \in R \ DOMAIN sched : PlannedM(S, o, k) \in S.cl.avail}
    IN {Merge(sched, [k \in D |-> PlannedM(S, o, k)]) :
          D \in {D \in SUBSET R2 :
                   /\ \A a, b \in D : a # b => PlannedM(S, o, a) # PlannedM(S, o, b)
                   /\ \A k \in R2 \ D : \E w \in D : PlannedM(S, o, w) = PlannedM(S, o, k)
                                                     /\ (EstOf(o, w) < EstOf(o, k)
                                                         \/ (EstOf(o, w) = EstOf(o, k) /\ w < k))}}
(* greedy-from-plan: tasks in plan order; a ready task gets its planned     *)
(* machine unless that machine is busy or already handed out in this round, *)
(* then any machine that is still free (none left: the task waits)          *)
RECURSIVE GreedyRun(_, _, _, _, _, _)
GreedyRun(S, o, R, seq, temp, acc) ==
    IF seq = <<>> THEN {acc}
    ELSE LET k == seq[1]
             rest == SubSeq(seq, 2, Len(seq))
             m == PlannedM(S, o, k)
         IN IF k \notin R THEN GreedyRun(S, o, R, rest, temp, acc)
            ELSE IF m \in S.cl.occ \cup S.cl.ingest \/ m \notin temp
            THEN IF temp = {} THEN GreedyRun(S, o, R, rest, temp, acc)
                 ELSE UNION {GreedyRun(S, o, R, rest, temp \ {x}, acc @@ (k :> x)) : x \in temp}
            ELSE GreedyRun(S, o, R, rest, temp \ {m}, acc @@ (k :> m))
GreedyProposals(S, o, R, sched) ==
    {Merge(sched, f) : f \in GreedyRun(S, o, R, OCfg(o).torder, S.cl.avail, EmptyFn)}
AdvProposals(S, o, rem, sched) ==
    {Merge(sched, f) : f \in UNION {[D -> Machines \cup {Foreign}] : D \in SUBSET rem}}

Proposals(S, o, rem, pv, loc) ==
    LET R == Ready(S, o, rem)
        sched == loc.sched
    IN IF cfg.alg = "batch" THEN (IF pv.ok THEN HandOut(R, IdleOf(S, o), sched) ELSE {sched})
       ELSE IF cfg.alg = "queue" THEN HandOut(R, S.cl.avail, sched)
       ELSE IF cfg.alg = "plan" THEN PlanProposals(S, o, R, sched)
       ELSE IF cfg.alg = "greedy" THEN GreedyProposals(S, o, R, sched)
       ELSE IF loc.left < cfg.advRounds THEN AdvProposals(S, o, rem, sched)
       ELSE (* the harness adversary's cooperative fallback: ready tasks in plan order on free machines *)
            LET free == S.cl.avail \cup IdleOf(S, o)
                n == MinI(Cardinality(R), Cardinality(free))
            IN {f \in UNION {Injection(Rs, free) : Rs \in kSubset(n, R)} : TRUE}

(* ---- the same contracts as predicates on one given proposal (trace        *)
(* validation: no enumeration of the proposal sets, which grow factorially  *)
(* with the number of machines)                                             *)
IsInjectiveOn(f, D) == \A a, b \in D : a # b => f[a] # f[b]
HandOutValid(prop, R, temp, sched) ==
    LET R2 == R \ DOMAIN sched
        n == MaxI(0, MinI(Cardinality(R2), Cardinality(temp) - Cardinality(DOMAIN sched)))
        new == DOMAIN prop \ DOMAIN sched
    IN /\ DOMAIN sched \subseteq DOMAIN prop /\ \A k \in DOMAIN sched : prop[k] = sched[k]
       /\ new = LowestK(R2, n)
       /\ \A k \in new : prop[k] \in temp
       /\ IsInjectiveOn(prop, new)
RECURSIVE GreedyValidFrom(_, _, _, _, _, _)
GreedyValidFrom(S, o, R, seq, temp, prop) ==
    IF seq = <<>> THEN TRUE
    ELSE LET k == seq[1]
             rest == SubSeq(seq, 2, Len(seq))
             m == PlannedM(S, o, k)
         IN IF k \notin R THEN GreedyValidFrom(S, o, R, rest, temp, prop)
            ELSE IF m \in S.cl.occ \cup S.cl.ingest \/ m \notin temp
            THEN IF temp = {} THEN k \notin DOMAIN prop /\ GreedyValidFrom(S, o, R, rest, temp, prop)
                 ELSE k \in DOMAIN prop /\ prop[k] \in temp
                      /\ GreedyValidFrom(S, o, R, rest, temp \ {prop[k]}, prop)
            ELSE k \in DOMAIN prop /\ prop[k] = m /\ GreedyValidFrom(S, o, R, rest, temp \ {m}, prop)
ProposalValid(S, o, rem, pv, loc, prop) ==
    LET R == Ready(S, o, rem)
        sched == loc.sched
    IN IF cfg.alg = "batch" THEN (IF pv.ok THEN HandOutValid(prop, R, IdleOf(S, o), sched) ELSE prop = sched)
       ELSE IF cfg.alg = "queue" THEN HandOutValid(prop, R, S.cl.avail, sched)
       ELSE IF cfg.alg = "plan" THEN prop \in PlanProposals(S, o, R, sched)
       ELSE IF cfg.alg = "greedy"
       THEN DOMAIN prop \subseteq R \cup DOMAIN sched /\ GreedyValidFrom(S, o, R, OCfg(o).torder, S.cl.avail, prop)
       ELSE TRUE

(* ---- _process_current_schedule ----------------------------------------- *)
Busy(S, m) == m \in S.cl.occ \cup S.cl.ingest
Winners(S, prop) ==
    {W \in SUBSET DOMAIN prop :
       /\ \A k \in W : ~Busy(S, prop[k])
       /\ \A a, b \in W : a # b => prop[a] # prop[b]
       /\ \A k \in DOMAIN prop \ W : Busy(S, prop[k]) \/ \E w \in W : prop[w] = prop[k]}
MCpu(m) == Cpu(m)
MBw(m) == Bw(m)
(* Task.update_allocation(machine): applied to every proposed entry whose   *)
(* machine differs from the recorded one                                   *)
UpdateAlloc1(S, o, k, m) ==
    LET t == Task(o, k)
        tk == S.tasks[t]
        d == MaxI(Comp(o, k) \div MCpu(m), Data(o, k) \div MBw(m))
    IN IF m = tk.pm THEN S
       ELSE IF d > tk.dur
       THEN [S EXCEPT !.tasks[t] = [tk EXCEPT !.pm = m, !.flag = TRUE, !.doff = (d - tk.dur) * K, !.dur = d]]
       ELSE [S EXCEPT !.tasks[t].pm = m]
(* the entries are processed one after the other (ord: sorted by est, ties *)
(* in dictionary order); an entry whose machine is busy or was used earlier *)
(* in this round is skipped and stays in the schedule; a task whose         *)
(* predecessor was never allocated (KeyError) or that is not UNSCHEDULED    *)
(* (RuntimeError) stops the processing with an exception                    *)
ProcessSchedule(S, pid, prop, ord) ==
    LET o == pid[2]
        Step(acc, k) ==
          IF acc.S.pend # "" THEN acc
          ELSE LET m == prop[k]
                   S1 == UpdateAlloc1(acc.S, o, k, m)
               IN IF m \in acc.used \/ Busy(S1, m) THEN [acc EXCEPT !.S = S1]
                  ELSE IF \E p \in Pred(o, k) : S1.tasks[Task(o, p)].m = NoM
                  THEN [acc EXCEPT !.S = Raise(S1, "KeyError")]
                  ELSE IF S1.tasks[Task(o, k)].status # "UNSCHEDULED"
                  THEN [acc EXCEPT !.S = Raise(S1, "RuntimeError")]
                  ELSE LET S2 == [S1 EXCEPT !.tasks[Task(o, k)] =
                                      [@ EXCEPT !.status = "SCHEDULED", !.m = m, !.alloc = S.now],
                                             !.procs[pid].sched = RemoveKey(@, k)]
                       IN [S |-> Spawn(S2, TpPid(Task(o, k)), Loc(FALSE, 0, m, "", EmptyFn)),
                           used |-> acc.used \cup {m}]
        S0 == [S EXCEPT !.procs[pid].sched = prop]
    IN FoldLeft(Step, [S |-> S0, used |-> {}], ord).S

(* processing orders: every est-sorted enumeration of the proposed tasks;  *)
(* cfg.canon fixes one representative to keep model checking small         *)
Orders(o, D) ==
    LET sorted == {q \in SetToSeqs(D) : \A i, j \in 1..Len(q) : i < j => EstOf(o, q[i]) <= EstOf(o, q[j])}
    IN IF cfg.canon THEN {CHOOSE q \in sorted : TRUE} ELSE sorted

(* ---- one resume of allocate_tasks --------------------------------------- *)
(* pv: provisioning outcome, prop: what the algorithm returned, W: the     *)
(* entries the scheduler actually hands to the cluster                     *)
ATRound(S, pid, pv, prop, ord, delayedByAlg) ==
    LET o == pid[2]
        loc0 == S.procs[pid]
        S0 == IF loc0.started THEN S
              ELSE EmitSch([S EXCEPT !.obs[o].planAst = S.now, !.procs[pid].started = TRUE],
                           o, "allocation", "started")
        rem == Remaining(S0, o)
        gone == S0.obs[o].remaining \ rem
        flagged == {k \in gone : S0.tasks[Task(o, k)].flag}
        S1 == [S0 EXCEPT !.obs[o].remaining = rem,
                         !.sch.status = IF flagged # {} \/ delayedByAlg THEN "DELAYED" ELSE @,
                         !.sch.doff = @ + SumFunction([k \in flagged |-> S0.tasks[Task(o, k)].doff]),
                         !.procs[pid].left = @ + 1,
                         !.procs[pid].sched = prop]   \* `schedule` is rebound to what the algorithm returned
        S2 == ApplyProv(S1, o, pv)
        S3 == IF rem = {} /\ cfg.alg \in {"batch", "queue"} THEN Release(S2, o) ELSE S2
    IN IF rem = {} /\ DOMAIN prop = {}
       THEN LET S4 == EmitBuf(EmitSch(S3, o, "allocation", "stopped"), o, "buffer", "removed")
            IN IF o \in S4.buf.hotSched
               THEN LET S5 == Release([S4 EXCEPT !.buf.hotFree = @ + S4.obs[o].data,
                                                 !.buf.hotSched = @ \ {o},
                                                 !.buf.hotFin = @ \cup {o}], o)
                        S6 == EmitSch([S5 EXCEPT !.sch.queue = @ \ {o}, !.procs[pid].ph = "done"],
                                      o, "queue", "removed")
                    IN Sleep(S6, pid, STEP)
               ELSE Sleep(S4, pid, STEP)
       ELSE IF DOMAIN prop = {} THEN Sleep(S3, pid, STEP)
       ELSE LET S4 == ProcessSchedule(S3, pid, prop, ord)
            IN IF S4.pend # "" THEN Die(S4, pid) ELSE Sleep(S4, pid, STEP)

AlgRaises(S, o) == SplitRaises(S, o)
ATStep(S, pid, pv, prop, ord, d) ==
    IF S.procs[pid].ph = "done" THEN EndProc(S, pid)
    ELSE IF AlgRaises(S, pid[2])
    THEN Die(Raise(S, "RuntimeError"), pid)
    ELSE ATRound(S, pid, pv, prop, ord, d)

(* all successor states of an allocate_tasks resume *)
ATChoices(S, pid) ==
    LET o == pid[2]
        loc == S.procs[pid]
        S0 == S
        rem == Remaining(S, o)
    IN IF loc.ph = "done" \/ AlgRaises(S, o)
       THEN {[pv |-> [ok |-> FALSE, ms |-> {}], prop |-> EmptyFn, ord |-> <<>>, d |-> FALSE]}
       ELSE UNION { UNION { {[pv |-> pv, prop |-> prop, ord |-> ord, d |-> FALSE] :
                               ord \in Orders(o, DOMAIN prop)}
                            : prop \in Proposals(ApplyProv(S, o, pv), o, rem, pv, loc) }
                    : pv \in ProvOptions(S, o) }
=============================================================================
