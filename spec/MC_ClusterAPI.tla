--------------------------- MODULE MC_ClusterAPI ---------------------------
(* Every sequence of Cluster operations up to a depth bound on a small     *)
(* cluster (C02 / C19 / C01 / C09 `histories`).                            *)
EXTENDS ClusterAPI, Props

VARIABLES S, depth, last
avars == <<cfg, S, depth, last>>

CONSTANT MaxDepth

Wf1(n) == [nodes |-> 1..n, comp |-> [k \in 1..n |-> 1], data |-> [k \in 1..n |-> 0],
           edges |-> {}, vol |-> EmptyFn, torder |-> [k \in 1..n |-> k]]
Ob(dur, ing, n) == [est |-> 0, estT |-> 0, dur |-> dur, demand |-> 1, ing |-> ing, rate |-> 1] @@ Wf1(n)
ApiCfg ==
    [ K |-> 1,
      mach |-> ("m0" :> [cpu |-> 1, bw |-> 1] @@ "m1" :> [cpu |-> 1, bw |-> 1] @@ "m2" :> [cpu |-> 1, bw |-> 1]),
      arrays |-> 4, maxIngest |-> 3, hotCap |-> 100, coldCap |-> 100, hotRate |-> 5, coldRate |-> 5,
      order |-> <<"a", "b", "c">>,
      obs |-> ("a" :> Ob(2, 1, 2) @@ "b" :> Ob(1, 2, 1) @@ "c" :> Ob(1, 1, 1)),
      alg |-> "queue", parts |-> 1, minPer |-> 1, split |-> EmptyFn, extra |-> EmptyFn,
      plan |-> EmptyFn, advRounds |-> 0, advProv |-> 0, perm |-> {}, canon |-> FALSE, seg |-> FALSE, api |-> FALSE ]

AInit == cfg = ApiCfg /\ S = ApiInit /\ depth = 0 /\ last = ""

Tasks == {<<"a", 1>>, <<"a", 2>>, <<"b", 1>>}
Do(outs) == /\ depth < MaxDepth
            /\ \E x \in outs : S' = [x.st EXCEPT !.crashed = ""] /\ last' = x.raised
            /\ depth' = depth + 1 /\ UNCHANGED cfg
OpProvBatch == \E size \in 0..3, o \in {"a", "b"} : Do(ProvBatchOutcomes(S, size, o))
OpRelease == \E o \in {"a", "b"} : Do(ReleaseOutcomes(S, o))
OpProvIngest == \E o \in {"a", "b"} : PiPid(o) \notin DOMAIN S.procs /\ <<o, -1>> \notin DOMAIN S.tasks
                                     /\ Do(SpawnPIOutcomes(S, o))
OpAlloc == \E t \in Tasks, m \in {"m0", "m1", Foreign} : t \notin DOMAIN S.tasks /\ Do(SpawnTPOutcomes(S, t, m))
OpAllocIngest == \E m \in {"m0", "m1"} : <<"c", -1>> \notin DOMAIN S.tasks /\ Do(SpawnTPOutcomes(S, <<"c", -1>>, m))
OpTick == Do(TickOutcomes(S))
(* OpAllocIngest (a direct ingest-flagged allocation, which only provision_ingest_resources
   performs) is outside the operation set of the property and not part of ANext *)
ANext == OpProvBatch \/ OpRelease \/ OpProvIngest \/ OpAlloc \/ OpTick
ASpec == AInit /\ [][ANext]_avars

I_partition == Inv_C02_partition(S)
I_counts == Inv_C02_counts(S)
I_numprov == Inv_C02_numprov(S)
I_exec == Inv_C01_exec(S)
I_claim == Inv_C01_claim(S)
I_pool == Inv_C01_pool(S)
I_idle == CluIdleQ(S) => (S.cl.running = {} /\ S.cl.ingest = {} /\ S.cl.occ = {})
(* a refused synchronous call leaves the cluster unchanged *)
A_refused == [][(last' # "" /\ ~ENABLED FALSE) => (depth' = depth + 1)]_avars
A_refusedSync == [][(last' = "IndexError") => S'.cl = S.cl]_avars
A_noreclaim == [][Tr_C01_noreclaim(S, S')]_avars
A_reserved == [][\A o \in DOMAIN S.cl.idle : \A m \in S.cl.idle[o] :
                    m \in IdleOf(S', o) \/ (m \in S'.cl.occ /\ \E p \in LivePids(S', "TP") : p[2] = o /\ S'.procs[p].m = m)
                    \/ (o \notin DOMAIN S'.cl.idle /\ m \in S'.cl.avail)]_avars
=============================================================================
