------------------------------- MODULE TopSim -------------------------------
(* Composition: the discrete-event loop of a topsim Simulation.             *)
(*   S    the abstract simulator state (TopSimState)                        *)
(*   run  what the caller of Simulation.start() sees:                       *)
(*        "running" | "returned" | "crashed"                                *)
(* One Next step = one SimPy event.  Order = "Exact": SimPy's (time,        *)
(* priority, event id) discipline; cfg.perm (set of process kinds) lets any *)
(* due NORMAL event of those kinds overtake the head (the `schedules`       *)
(* quantifier).                                                             *)
EXTENDS TopSimStep

VARIABLES S, run, hlog    \* hlog: history of what the monitor logged
vars == <<cfg, S, run, hlog>>

CONSTANT Configs            \* the configuration family of this instance

Init == /\ cfg \in Configs
        /\ S = StartState
        /\ run = "running"
        /\ hlog = <<>>

TagEv(seq, a) == [i \in 1..Len(seq) |-> [a |-> a, t |-> seq[i].t, o |-> seq[i].o, r |-> seq[i].r, e |-> seq[i].e]]
PendingTagged(T) == TagEv(T.ev.tel, "instrument") \o TagEv(T.ev.sch, "scheduler") \o TagEv(T.ev.buf, "buffer")
HlogNext == hlog' = IF S'.mon.logN # S.mon.logN THEN hlog \o PendingTagged(S) ELSE hlog

Resume(kind) ==
    /\ run = "running"
    /\ \E i \in Cand(S) :
         /\ S.queue[i].pid[1] = kind
         /\ S' \in Succs(S, i)
    /\ HlogNext
    /\ UNCHANGED <<cfg, run>>

(* the `until` event of env.run(now + 1): the caller's loop tests           *)
(* is_finished() and either returns (final collate) or runs one more step   *)
StopStep ==
    /\ run = "running" /\ S.queue # <<>> /\ IsStop(QHead(S))
    /\ LET P == Pop(S, 1)
       IN IF FinishedQ(P)
          THEN S' = Collate(P) /\ run' = "returned"
          ELSE \/ S' = [P EXCEPT !.queue = QInsert(@, [t |-> P.now + K, p |-> URGENT, pid |-> StopPid])]
                  /\ run' = run
               \/ (* start(k) / resume(u) return here: the caller sees a   *)
                  (* paused simulation; both collate before returning     *)
                  /\ cfg.seg
                  /\ S' = Collate(P) /\ run' = "paused"
    /\ HlogNext
    /\ UNCHANGED cfg

(* Simulation.resume(until): env.run(until) *)
ResumeCall ==
    /\ run = "paused"
    /\ S' = [S EXCEPT !.queue = QInsert(@, [t |-> S.now + K, p |-> URGENT, pid |-> StopPid])]
    /\ run' = "running"
    /\ UNCHANGED <<cfg, hlog>>

Surface ==
    /\ run = "running" /\ S.queue # <<>> /\ QHead(S).pid[1] = "CRASH"
    /\ S' = [Pop(S, 1) EXCEPT !.crashed = QHead(S).pid[2]]
    /\ run' = "crashed"
    /\ UNCHANGED <<cfg, hlog>>

Next ==
    \/ Resume("Mon") \/ Resume("Tel") \/ Resume("Clu") \/ Resume("Sch") \/ Resume("Buf")
    \/ Resume("AI") \/ Resume("PI") \/ Resume("ST") \/ Resume("TP") \/ Resume("WK")
    \/ Resume("AT") \/ Resume("H2C") \/ Resume("C2H")
    \/ StopStep \/ ResumeCall \/ Surface

Spec == Init /\ [][Next]_vars
FairSpec == Spec /\ WF_vars(Next)

Done == run # "running"
=============================================================================
