------------------------------- MODULE MC_Sim -------------------------------
(* Model-checking instances of the simulator specification: families of     *)
(* small configurations (the `configurations` / `inputs` quantifiers), the  *)
(* properties as INVARIANTs and action properties.                          *)
EXTENDS TopSim, Props

(* ------------------------- workflow shapes ------------------------------- *)
Wf(nodes, comp, data, edges, vol) ==
    [nodes |-> nodes, comp |-> comp, data |-> data, edges |-> edges, vol |-> vol]
Single(c) == Wf({1}, (1 :> c), (1 :> 0), {}, EmptyFn)
Chain2(c1, c2, v) == Wf({1, 2}, (1 :> c1 @@ 2 :> c2), (1 :> 0 @@ 2 :> 0), {<<1, 2>>}, (<<1, 2>> :> v))
Fork3(c1, c2, c3, v) ==
    Wf({1, 2, 3}, (1 :> c1 @@ 2 :> c2 @@ 3 :> c3), (1 :> 0 @@ 2 :> 1 @@ 3 :> 0),
       {<<1, 2>>, <<1, 3>>}, (<<1, 2>> :> v @@ <<1, 3>> :> 0))
Join3(c1, c2, c3, v) ==
    Wf({1, 2, 3}, (1 :> c1 @@ 2 :> c2 @@ 3 :> c3), (1 :> 0 @@ 2 :> 0 @@ 3 :> 2),
       {<<1, 3>>, <<2, 3>>}, (<<1, 3>> :> v @@ <<2, 3>> :> 1))
Diamond4(v) ==
    Wf({1, 2, 3, 4}, (1 :> 2 @@ 2 :> 1 @@ 3 :> 3 @@ 4 :> 0), (1 :> 0 @@ 2 :> 0 @@ 3 :> 0 @@ 4 :> 0),
       {<<1, 2>>, <<1, 3>>, <<2, 4>>, <<3, 4>>},
       (<<1, 2>> :> v @@ <<1, 3>> :> 0 @@ <<2, 4>> :> 1 @@ <<3, 4>> :> v))
TopoOf(wf) == SetToSortSeq(wf.nodes, <)    \* edges go from lower to higher ids

MkObs(est, dur, demand, ing, rate, wf) ==
    [ est |-> est, dur |-> dur, demand |-> demand, ing |-> ing, rate |-> rate,
      nodes |-> wf.nodes, comp |-> wf.comp, data |-> wf.data, edges |-> wf.edges,
      vol |-> wf.vol, torder |-> TopoOf(wf) ]

Mach3 == ("m0" :> [cpu |-> 2, bw |-> 1] @@ "m1" :> [cpu |-> 1, bw |-> 1] @@ "m2" :> [cpu |-> 1, bw |-> 1])
Mach2 == ("m0" :> [cpu |-> 2, bw |-> 1] @@ "m1" :> [cpu |-> 1, bw |-> 1])
Mach2bw == ("m0" :> [cpu |-> 2, bw |-> 2] @@ "m1" :> [cpu |-> 1, bw |-> 1])

Base == [ K |-> 1, mach |-> Mach3, arrays |-> 3, maxIngest |-> 2,
          hotCap |-> 30, coldCap |-> 30, hotRate |-> 3, coldRate |-> 2,
          order |-> <<"a", "b">>, obs |-> EmptyFn,
          alg |-> "batch", parts |-> 1, minPer |-> 1, split |-> EmptyFn,
          extra |-> EmptyFn, plan |-> EmptyFn, advRounds |-> 0, advProv |-> 0, perm |-> {}, canon |-> TRUE, seg |-> FALSE, api |-> FALSE ]

(* static plan: every assignment of tasks to machines; est/eft only order  *)
(* ties, so a fixed est = node id, eft = est + 1 is enough for the model   *)
PlansFor(obsMap, machs) ==
    LET ts == UNION {{<<o, k>> : k \in obsMap[o].nodes} : o \in DOMAIN obsMap}
    IN {[t \in ts |-> [m |-> f[t], est |-> t[2] - 1, eft |-> t[2]]] : f \in [ts -> machs]}

(* ---- family A: two observations contending for machines and arrays ----- *)
FamA ==
    {[Base EXCEPT !.obs = ("a" :> MkObs(0, da, 2, ia, 1, wa) @@ "b" :> MkObs(eb, db, dmb, ib, 1, wb)),
                  !.maxIngest = mi, !.alg = al.alg, !.parts = al.parts, !.minPer = al.minPer] :
        da \in {1, 2}, ia \in {1, 2}, eb \in {0, 1, 2}, db \in {1, 2}, dmb \in {1, 2}, ib \in {1},
        mi \in {1, 2}, wa \in {Chain2(2, 1, 1), Fork3(1, 2, 1, 2)}, wb \in {Single(2)},
        al \in {[alg |-> "batch", parts |-> 1, minPer |-> 1], [alg |-> "batch", parts |-> 2, minPer |-> 1],
                [alg |-> "queue", parts |-> 1, minPer |-> 1]}}

(* ---- family P: process orders permuted (allocation / ingest processes) -- *)
FamP ==
    {[c EXCEPT !.perm = {"AT", "AI", "PI", "ST"}] :
        c \in {c \in FamA : c.obs["a"].dur = 1 /\ c.obs["b"].dur = 1 /\ c.maxIngest = 2}}

(* ---- family W: one observation, workflow shapes, delays, all policies --- *)
DelaySets(ts) == {EmptyFn} \cup UNION {{(t :> x) : x \in {1, 2}} : t \in ts}
FamW ==
    UNION {
      LET ob == ("a" :> MkObs(0, 1, 1, 1, 1, wf))
          ts == {<<"a", k>> : k \in wf.nodes}
      IN {[Base EXCEPT !.order = <<"a">>, !.obs = ob, !.mach = mm, !.K = IF mm = Mach2bw THEN 2 ELSE 1,
                       !.alg = al, !.extra = ex] :
             mm \in {Mach2, Mach2bw}, al \in {"batch", "queue"}, ex \in DelaySets(ts)}
         \cup
         {[Base EXCEPT !.order = <<"a">>, !.obs = ob, !.mach = Mach2, !.alg = al, !.plan = pl, !.extra = ex] :
             al \in {"plan", "greedy"}, pl \in PlansFor(ob, DOMAIN Mach2), ex \in {EmptyFn, (<<"a", 1>> :> 1)}}
      : wf \in {Single(0), Single(1), Single(3), Chain2(2, 1, 1), Chain2(1, 0, 3), Fork3(1, 2, 1, 2),
                Join3(2, 1, 1, 3), Diamond4(1)} }

(* ---- family V: adversarial scheduling algorithm -------------------------- *)
FamV ==
    {[Base EXCEPT !.order = <<"a">>, !.obs = ("a" :> MkObs(0, 2, 1, 1, 1, wf)), !.mach = Mach2,
                  !.alg = "adv", !.advRounds = 2, !.advProv = pv] : wf \in {Chain2(2, 1, 1), Fork3(1, 1, 1, 0)}, pv \in {0, 1}}
    \cup
    {[Base EXCEPT !.obs = ("a" :> MkObs(0, 1, 1, 1, 1, Single(2)) @@ "b" :> MkObs(0, 2, 1, 1, 1, Chain2(1, 1, 0))),
                  !.mach = Mach2, !.alg = "adv", !.advRounds = 2, !.arrays = 2, !.maxIngest = 2]}

(* ---- family B: buffer admission (refusal then admission, below threshold) *)
FamB ==
    {[Base EXCEPT !.obs = ("a" :> MkObs(0, 2, 1, 1, 3, Single(ca)) @@ "b" :> MkObs(eb, 2, 1, 1, 3, Single(1))),
                  !.mach = Mach2, !.hotCap = 10, !.coldCap = cc, !.alg = al] :
        ca \in {1, 4}, eb \in {2, 3, 4}, cc \in {6, 8}, al \in {"batch", "queue"}}
(* the same with overlapping ingests: reproduces the admission over-commit finding *)
FamBX ==
    {[Base EXCEPT !.obs = ("a" :> MkObs(0, 2, 1, 1, 3, Single(4)) @@ "b" :> MkObs(eb, 2, 1, 1, 3, Single(1))),
                  !.mach = Mach2, !.hotCap = 10, !.coldCap = 8, !.alg = "queue"] : eb \in {0, 1}}

(* ---- family A3: three observations, reservations and ingest competing ---- *)
Mach4 == Mach3 @@ ("m3" :> [cpu |-> 1, bw |-> 1])
FamA3 ==
    {[Base EXCEPT !.order = <<"a", "b", "c">>, !.mach = Mach4, !.arrays = 3, !.maxIngest = 2,
                  !.obs = ("a" :> MkObs(0, 1, 1, 1, 1, Chain2(2, 1, 1)) @@ "b" :> MkObs(eb, 2, 2, ib, 1, Single(2))
                           @@ "c" :> MkObs(ec, 1, 1, 1, 2, Fork3(1, 1, 2, 0))),
                  !.alg = al.alg, !.parts = al.parts, !.minPer = al.minPer] :
        eb \in {0, 1, 3}, ec \in {0, 2, 3}, ib \in {1, 2},
        al \in {[alg |-> "batch", parts |-> 2, minPer |-> 1], [alg |-> "batch", parts |-> 2, minPer |-> 2],
                [alg |-> "queue", parts |-> 1, minPer |-> 1]}}

(* ---- family S: pausing and resuming at every step boundary (C11) ---------- *)
FamS == {[c EXCEPT !.seg = TRUE] :
           c \in {c \in FamA : c.obs["a"].dur = 1 /\ c.obs["b"].dur = 1 /\ c.obs["b"].est <= 1 /\ c.maxIngest = 2}
                 \cup {c \in FamB : c.obs["a"].comp[1] = 1 /\ c.coldCap = 6}}

(* ---- family D: every DAG on four ordered nodes, fractional transfer waits --- *)
Pairs4 == {<<u, v>> \in (1..4) \X (1..4) : u < v}
FamD ==
    {[Base EXCEPT !.order = <<"a">>, !.mach = Mach2bw, !.K = 2, !.alg = al,
                  !.obs = ("a" :> MkObs(0, 1, 1, 1, 1,
                              Wf({1, 2, 3, 4}, (1 :> 2 @@ 2 :> 1 @@ 3 :> 3 @@ 4 :> 1),
                                 (1 :> 0 @@ 2 :> 0 @@ 3 :> 2 @@ 4 :> 0), es,
                                 [e \in es |-> (e[1] + 2 * e[2]) % 4])))] :
        es \in SUBSET Pairs4, al \in {"queue", "batch"}}

(* ---- family TX: one observation larger than 60 % of the hot buffer: it is moved *)
(* to the cold tier and never comes back (expected failure, KF-C05-strand)        *)
FamTX ==
    {[Base EXCEPT !.order = <<"a">>, !.obs = ("a" :> MkObs(0, d, 1, 1, 1, Single(1))),
                  !.mach = Mach2, !.hotCap = 10, !.coldCap = 10, !.alg = al] :
        d \in {7, 8}, al \in {"batch", "queue"}}

(* ---- family G: two observations under the plan-following policies, every   *)
(* static plan over both workflows (contention for a planned machine)         *)
FamG ==
    UNION {
      LET ob == ("a" :> MkObs(0, da, 1, 1, 1, Chain2(2, 1, 1)) @@ "b" :> MkObs(eb, 1, 1, 1, 1, wb))
      IN {[Base EXCEPT !.obs = ob, !.mach = Mach2, !.arrays = 2, !.maxIngest = 1, !.alg = al, !.plan = pl] :
             al \in {"plan", "greedy"}, pl \in PlansFor(ob, DOMAIN Mach2)}
      : da \in {1, 2}, eb \in {0, 1, 2, 3}, wb \in {Single(2), Chain2(1, 1, 0)} }

CONSTANT FamilyName
Fam == CASE FamilyName = "A" -> FamA [] FamilyName = "P" -> FamP [] FamilyName = "W" -> FamW
               [] FamilyName = "V" -> FamV [] FamilyName = "B" -> FamB [] FamilyName = "BX" -> FamBX [] FamilyName = "A3" -> FamA3 [] FamilyName = "S" -> FamS [] FamilyName = "D" -> FamD [] FamilyName = "TX" -> FamTX [] FamilyName = "G" -> FamG
WithEstT(c) == [c EXCEPT !.obs = [o \in DOMAIN c.obs |-> c.obs[o] @@ [estT |-> c.obs[o].est * c.K]]]
MCConfigs == {WithEstT(c) : c \in {c \in Fam : FeasibleCfg(c)}}

(* ------------------------------ properties -------------------------------- *)
I_C01_exec == Inv_C01_exec(S)
I_C01_claim == Inv_C01_claim(S)
I_C01_pool == Inv_C01_pool(S)
I_C02_partition == Inv_C02_partition(S)
I_C02_counts == Inv_C02_counts(S)
I_C02_numprov == Inv_C02_numprov(S)
I_C05_bound == Inv_C05_bound(S)
I_C05_nocrash == run # "crashed"
I_C07_bounds == Inv_C07_bounds(S)
I_C07_conserved == Inv_C07_conserved(S)
I_C08_limits == Inv_C08_limits(S) /\ Inv_C08_arrays(S) /\ Inv_C08_budget(S)
I_C09_prompt == Inv_C09_prompt(S)
I_C09_count == Inv_C09_count(S) /\ Inv_C09_counter(S)
I_C15_reported == Inv_C15_reported(S)
I_C19_truth == Truth_C19(S, SpecQueries(S))
I_End == run = "returned" =>
            /\ End_C02(S) /\ End_C04(S) /\ End_C07(S)
            /\ S.mon.rows = S.now \div K
I_C13_end == run = "returned" =>
                 (End_C13_complete(hlog) /\ End_C13_order(hlog) /\ End_C13_times(hlog, S))
I_C13_nodup == \A i, j \in 1..Len(hlog) : i # j => hlog[i] # hlog[j]

A_C01 == [][Tr_C01_noreclaim(S, S')]_vars
A_C02 == [][Tr_C02_boundary(S, S')]_vars
A_C03 == [][cfg.alg = "adv" \/ (Tr_C03_precedence(S, S') /\ Tr_C03_exact(S, S'))]_vars
A_C04 == [][Tr_C04_once(S, S')]_vars
A_C06 == [][Tr_C06_runtime(S, S')]_vars
A_C07 == [][Tr_C07_deposit(S, S') /\ Tr_C07_release(S, S')]_vars
A_C08 == [][Tr_C08_begin(S, S') /\ Tr_C08_status(S, S') /\ Tr_C08_finish(S, S')]_vars
A_C08b == [][Tr_C08_ingest(S, S')]_vars
A_C08c == [][Tr_C08_ontime(S, S')]_vars
A_C09 == [][Tr_C09_onlyReserved(S, S') /\ Tr_C09_exclusive(S, S') /\ Tr_C09_size(S, S') /\ Tr_C09_fixed(S, S') /\ Tr_C09_released(S, S')]_vars
(* the monitor's row equals the true state at the beginning of the step *)
A_C12 == [][(S'.mon.rows = S.mon.rows + 1) => (Row(S) = TrueRow(S) /\ Tr_C12_rowcount(S, S'))]_vars
A_C15 == [][Tr_C15_flag(S, S')]_vars
A_C17 == [][Tr_C17_planned(S, S')]_vars

(* pausing / resuming is invisible: the steps taken by start(k)/resume(u)   *)
(* returning and by resume being called change nothing but where pending    *)
(* log entries are kept (pending lists vs. log); every other step is a step *)
(* of the uninterrupted specification by construction                       *)
CoreOf(T) == [T EXCEPT !.ev = <<>>, !.mon = [rows |-> T.mon.rows], !.queue = NoStop(@), !.now = 0]
EffLog(T, h) == h \o PendingTagged(T)
A_C11 == [][(run' = "paused" \/ run = "paused") =>
              (CoreOf(S') = CoreOf(S) /\ EffLog(S', hlog') = EffLog(S, hlog))]_vars
(* reproducibility at design level: which tasks an allocation round serves  *)
(* is a function of the state (no choice left to set-iteration order); the  *)
(* remaining choice is which free machine of a list is taken first          *)
I_C10_det ==
    (run = "running" /\ S.queue # <<>> /\ QHead(S).pid[1] = "AT" /\ cfg.alg \in {"batch", "queue", "plan"})
    => LET P == Pop(S, 1)
           pid == QHead(S).pid
       IN Cardinality({DOMAIN c.prop : c \in ATChoices(P, pid)}) <= 1
Terminates == <>(run # "running")
=============================================================================
