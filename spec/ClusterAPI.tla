----------------------------- MODULE ClusterAPI -----------------------------
(* The Cluster's public operations driven in arbitrary order (the          *)
(* `histories` quantifier of C02 / C19 / C01 / C09), independent of the    *)
(* simulator's call pattern.  Reuses the process steps of the simulator    *)
(* specification (TopSimActors) on a cut-down state:                       *)
(*     [now, cl, tasks, procs, queue, pend, crashed]                       *)
(* Operations:                                                             *)
(*   ProvBatch(size, o)   cluster.provision_batch_resources(size, o)       *)
(*   Release(o)           cluster.release_batch_resources(o)               *)
(*   ProvIngest(o)        env.process(cluster.provision_ingest_resources(  *)
(*                                      demand[o], observation o))        *)
(*   Alloc(t, m)          env.process(cluster.allocate_task_to_cluster(    *)
(*                            task t, machine m, observation = t's,        *)
(*                            ingest = (t is an ingest task)))             *)
(*   Tick                 env.run(until = now + 1)                         *)
(* A call is `refused` when it raises; for the process-creating calls the  *)
(* exception surfaces during the next Tick.                                *)
EXTENDS TopSimStep

ApiInit ==
    [ now |-> 0,
      cl |-> InitState.cl,
      tasks |-> EmptyFn, procs |-> EmptyFn, queue |-> <<>>,
      pend |-> "", crashed |-> "" ]

(* tasks the API driver may hand to allocate_task_to_cluster *)
ApiTask(t) ==
    [ status |-> IF IsIngestTask(t) THEN "SCHEDULED" ELSE "UNSCHEDULED", m |-> NoM,
      alloc |-> NoneT,
      ast |-> NoneT, aft |-> NoneT, dur |-> IF IsIngestTask(t) THEN OCfg(t[1]).dur ELSE 0,
      flag |-> FALSE, doff |-> 0, pm |-> NoM ]

(* provision_batch_resources as the code behaves after the repair:         *)
(* raises IndexError when nothing is available and size > 0 (unchanged);   *)
(* takes Min(size, |avail|) machines; counts a reservation only when it    *)
(* creates one                                                             *)
Out(st, raised) == [st |-> st, raised |-> raised]
ProvBatchOutcomes(S, size, o) ==
    LET av == Cardinality(S.cl.avail)
        n == IF size > av /\ av > 0 THEN av ELSE size
    IN IF n > av THEN {Out(S, "IndexError")}
       ELSE IF n = 0 THEN {Out(S, "")}
       ELSE {Out([S EXCEPT !.cl.avail = @ \ ms,
                           !.cl.idle = [x \in DOMAIN @ \cup {o} |-> IF x = o THEN IdleOf(S, o) \cup ms ELSE @[x]],
                           !.cl.numProv = IF o \in DOMAIN S.cl.idle THEN @ ELSE @ + 1], "")
               : ms \in kSubset(n, S.cl.avail)}

ReleaseOutcomes(S, o) == {Out(Release(S, o), "")}

SpawnPIOutcomes(S, o) == {Out(Spawn(S, PiPid(o), Loc0), "")}
SpawnTPOutcomes(S, t, m) ==
    {Out(Spawn([S EXCEPT !.tasks = IF t \in DOMAIN @ THEN @
                                   ELSE @ @@ (t :> [ApiTask(t) EXCEPT !.m = m,
                                                      !.alloc = IF IsIngestTask(t) THEN S.now ELSE NoneT])],
               TpPid(t), Loc(FALSE, 0, m, "", EmptyFn)), "")}

(* env.run(until = now + K): process every event strictly before now + K  *)
(* in SimPy order; an exception escaping a process aborts the run at that  *)
(* point (the remaining events stay queued, the clock does not advance)    *)
RECURSIVE Drain(_, _)
Drain(S, until) ==
    IF S.queue = <<>> \/ S.queue[1].t >= until
    THEN {Out([S EXCEPT !.now = until], "")}
    ELSE IF S.queue[1].pid[1] = "CRASH"
    THEN {Out(Pop(S, 1), S.queue[1].pid[2])}
    ELSE UNION {Drain(T, until) : T \in Succs(S, 1)}
TickOutcomes(S) == Drain(S, S.now + K)

(* what a driver sees of the state (no queue, no process table) *)
View(S) == [now |-> S.now, cl |-> S.cl,
            tasks |-> [t \in DOMAIN S.tasks |-> [status |-> S.tasks[t].status, ast |-> S.tasks[t].ast,
                                                 aft |-> S.tasks[t].aft]]]
=============================================================================
