SPECIFICATION Spec
CONSTANT Configs <- MCConfigs
INVARIANT TimeBound
CHECK_DEADLOCK FALSE
