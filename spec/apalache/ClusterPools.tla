---------------------------- MODULE ClusterPools ----------------------------
(* Set-based abstraction of the Cluster's pools (the pool part of           *)
(* TopSimActors/TopSimSched/ClusterAPI) for an *unbounded* number of         *)
(* operations: the pool partition and the reservation counter are an        *)
(* inductive invariant (checked with Apalache: Init => IndInv at length 0,  *)
(* IndInv /\ Next => IndInv' at length 1) for 4 machines and 3 observations. *)
EXTENDS Integers, FiniteSets

CONSTANTS
    \* @type: Set(Str);
    M,
    \* @type: Set(Str);
    O

VARIABLES
    \* @type: Set(Str);
    avail,
    \* @type: Set(Str);
    ingest,
    \* @type: Set(Str);
    occ,
    \* @type: Str -> Set(Str);
    idle,
    \* @type: Set(Str);
    prov,
    \* @type: Str -> Str;
    owner,
    \* @type: Int;
    numProv

CInit == M = {"m0", "m1", "m2", "m3"} /\ O = {"a", "b", "c"}

Init == /\ avail = M /\ ingest = {} /\ occ = {}
        /\ idle = [o \in O |-> {}] /\ prov = {}
        /\ owner = [m \in M |-> ""] /\ numProv = 0

Reserved == UNION {idle[o] : o \in O}

\* provision_batch_resources(size, o): first `size` available machines
Provision(o, ms) ==
    /\ ms # {} /\ ms \subseteq avail
    /\ avail' = avail \ ms
    /\ idle' = [idle EXCEPT ![o] = @ \cup ms]
    /\ prov' = prov \cup {o}
    /\ numProv' = IF o \in prov THEN numProv ELSE numProv + 1
    /\ UNCHANGED <<ingest, occ, owner>>
\* release_batch_resources(o): an empty reservation stays
Release(o) ==
    /\ o \in prov /\ idle[o] # {}
    /\ avail' = avail \cup idle[o]
    /\ idle' = [idle EXCEPT ![o] = {}]
    /\ prov' = prov \ {o}
    /\ numProv' = numProv - 1
    /\ UNCHANGED <<ingest, occ, owner>>
\* provision_ingest_resources
IngestTake(ms) ==
    /\ ms # {} /\ ms \subseteq avail
    /\ avail' = avail \ ms /\ ingest' = ingest \cup ms
    /\ UNCHANGED <<occ, idle, prov, owner, numProv>>
IngestFree(m) ==
    /\ m \in ingest
    /\ ingest' = ingest \ {m} /\ avail' = avail \cup {m}
    /\ UNCHANGED <<occ, idle, prov, owner, numProv>>
\* allocate_task_to_cluster (claim): from the free pool or the observation's reservation
Claim(m, o) ==
    /\ \/ /\ m \in avail
          /\ avail' = avail \ {m} /\ idle' = idle
       \/ /\ m \notin avail /\ o \in prov /\ m \in idle[o]
          /\ idle' = [idle EXCEPT ![o] = @ \ {m}] /\ avail' = avail
    /\ occ' = occ \cup {m}
    /\ owner' = [owner EXCEPT ![m] = o]
    /\ UNCHANGED <<ingest, prov, numProv>>
\* completion: back into the reservation if it still exists, else into the free pool
Finish(m) ==
    /\ m \in occ
    /\ occ' = occ \ {m}
    /\ IF owner[m] \in prov
       THEN idle' = [idle EXCEPT ![owner[m]] = @ \cup {m}] /\ avail' = avail
       ELSE avail' = avail \cup {m} /\ idle' = idle
    /\ owner' = [owner EXCEPT ![m] = ""]
    /\ UNCHANGED <<ingest, prov, numProv>>

Next ==
    \/ \E o \in O, ms \in SUBSET M : Provision(o, ms)
    \/ \E o \in O : Release(o)
    \/ \E ms \in SUBSET M : IngestTake(ms)
    \/ \E m \in M : IngestFree(m)
    \/ \E m \in M, o \in O : Claim(m, o)
    \/ \E m \in M : Finish(m)

TypeOK ==
    /\ avail \in SUBSET M /\ ingest \in SUBSET M /\ occ \in SUBSET M
    /\ idle \in [O -> SUBSET M] /\ prov \in SUBSET O
    /\ owner \in [M -> O \cup {""}]
    /\ numProv \in 0..3

Partition ==
    /\ avail \cap ingest = {} /\ avail \cap occ = {} /\ ingest \cap occ = {}
    /\ Reserved \cap (avail \cup ingest \cup occ) = {}
    /\ \A a, b \in O : a # b => idle[a] \cap idle[b] = {}
    /\ avail \cup ingest \cup occ \cup Reserved = M
Counter == numProv = Cardinality(prov) /\ \A o \in O : o \notin prov => idle[o] = {}

IndInv == TypeOK /\ Partition /\ Counter
IndInit == IndInv
=============================================================================
