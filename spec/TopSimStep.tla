---------------------------- MODULE TopSimStep -----------------------------
(* Event dispatch: which queue entries may be processed next and what the  *)
(* successor states are.  Shared by the model-checking and trace specs.    *)
EXTENDS TopSimSched

Pop(T, i) == [T EXCEPT !.now = T.queue[i].t, !.queue = QRemoveAt(@, i)]
QHead(T) == T.queue[1]
Cand(T) ==
    IF T.queue = <<>> THEN {}
    ELSE {1} \cup {i \in 2..Len(T.queue) :
                     /\ T.queue[1].p = NORMAL /\ T.queue[i].p = NORMAL
                     /\ T.queue[i].t = T.queue[1].t
                     /\ T.queue[i].pid[1] \in cfg.perm
                     /\ T.queue[1].pid[1] \in cfg.perm}

(* successor states of resuming the process of queue entry i *)
Succs(T, i) ==
    LET e == T.queue[i]
        pid == e.pid
        kind == pid[1]
        P == Pop(T, i)
    IN CASE kind = "Mon" -> {MonTick(P)}
         [] kind = "Tel" -> {TelTick(P)}
         [] kind = "Clu" -> {CluTick(P)}
         [] kind = "Sch" -> {SchTick(P)}
         [] kind = "Buf" -> {BufTick(P)}
         [] kind = "AI" -> {AIStep(P, pid)}
         [] kind = "PI" -> {PIStep(P, pid, a) : a \in IF P.procs[pid].started THEN {<<>>} ELSE PIAssignments(P, pid[2])}
         [] kind = "ST" -> {STStep(P, pid)}
         [] kind = "TP" -> {TPStep(P, pid)}
         [] kind = "WK" -> {WKStep(P, pid)}
         [] kind = "AT" -> {ATStep(P, pid, c.pv, c.prop, c.ord, c.d) : c \in ATChoices(P, pid)}
         [] kind = "H2C" -> {H2CStep(P, pid)}
         [] kind = "C2H" -> {C2HStep(P, pid)}
         [] OTHER -> {}


StartState ==
    [InitState EXCEPT !.queue = Append(@, [t |-> K, p |-> URGENT, pid |-> StopPid])]
NoStop(q) == SelectSeq(q, LAMBDA e : e.pid[1] # "STOP")
=============================================================================
