SPECIFICATION Spec
CONSTANT Configs <- MCConfigs
CONSTANT FamilyName = "P"
INVARIANT I_C01_exec
INVARIANT I_C01_claim
INVARIANT I_C01_pool
INVARIANT I_C02_partition
INVARIANT I_C02_counts
INVARIANT I_C02_numprov
INVARIANT I_C05_bound
INVARIANT I_C05_nocrash
INVARIANT I_C07_bounds
INVARIANT I_C07_conserved
INVARIANT I_C08_limits
INVARIANT I_C09_count
INVARIANT I_C15_reported
INVARIANT I_C19_truth
INVARIANT I_End
PROPERTY A_C01
PROPERTY A_C02
PROPERTY A_C03
PROPERTY A_C04
PROPERTY A_C06
PROPERTY A_C07
PROPERTY A_C08
PROPERTY A_C08b
PROPERTY A_C08c
PROPERTY A_C09
PROPERTY A_C12
PROPERTY A_C15
PROPERTY A_C17
CHECK_DEADLOCK FALSE
