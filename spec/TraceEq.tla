------------------------------- MODULE TraceEq -------------------------------
(* C11: an execution interrupted by start(k) / resume(u) ... must coincide   *)
(* with the uninterrupted execution pinned by trace `a`: same state after    *)
(* every event (the `until` events of env.run themselves excluded), same     *)
(* per-timestep table, same task table, same event log.  Refused calls      *)
(* (start twice, resume before start) must raise and change nothing.         *)
(* C10 uses the same comparison for executions under different hash seeds.   *)
EXTENDS Integers, Sequences, TLC, Json, IOUtils

PData == JsonDeserialize(IOEnv.TRACE_FILE)
NP == Len(PData.pairs)

VARIABLE i

FirstDiff(x, y) ==
    IF Len(x) # Len(y) /\ (\A j \in 1..(IF Len(x) < Len(y) THEN Len(x) ELSE Len(y)) : x[j] = y[j])
    THEN (IF Len(x) < Len(y) THEN Len(x) ELSE Len(y)) + 1
    ELSE CHOOSE j \in 1..Len(x) : x[j] # y[j] /\ \A h \in 1..(j - 1) : x[h] = y[h]
Report(ok, what, k) == IF ok THEN TRUE ELSE PrintT(<<"EQ", i, what, k>>)

Check ==
    LET p == PData.pairs[i]
    IN /\ Report(p.a.states = p.b.states, "trajectory",
                 IF p.a.states = p.b.states THEN 0 ELSE FirstDiff(p.a.states, p.b.states))
       /\ Report(p.a.rows = p.b.rows, "rows", IF p.a.rows = p.b.rows THEN 0 ELSE FirstDiff(p.a.rows, p.b.rows))
       /\ Report(p.a.tasktable = p.b.tasktable, "tasktable", 0)
       /\ Report(p.a.log = p.b.log, "log", IF p.a.log = p.b.log THEN 0 ELSE FirstDiff(p.a.log, p.b.log))
       /\ Report(p.a.completed = p.b.completed /\ p.a.exc = p.b.exc, "outcome", 0)
       /\ \A r \in 1..Len(p.refusals) :
             /\ Report(p.refusals[r].raised = p.refusals[r].expect, "refusal-raises", r)
             /\ Report(p.refusals[r].before = p.refusals[r].after, "refusal-unchanged", r)
       /\ PrintT(<<"EQDONE", i>>)

EInit == i \in 1..NP /\ Check
ENext == UNCHANGED i
ESpec == EInit /\ [][ENext]_i
=============================================================================
