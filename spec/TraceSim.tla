------------------------------ MODULE TraceSim ------------------------------
(* Trace validation: every event of every recorded execution of the real   *)
(* topsim must be a step of the specification (L2), and every property     *)
(* predicate must hold in / between the logged states (L1, module Props).  *)
EXTENDS TraceConv, TLCExt

TData == JsonDeserialize(IOEnv.TRACE_FILE)
NT == Len(TData.traces)
Steps(i) == TData.traces[i].steps

VARIABLES tid, l, cur
tvars == <<cfg, tid, l, cur>>

MergeD(c, d) == [k \in DOMAIN c |-> IF k \in DOMAIN d THEN d[k] ELSE c[k]]

Norm(T) == [T EXCEPT !.queue = NoStop(@), !.sch.status = ""]
MatchS(T, B) == Norm(T) = Norm(B)
StatusOK(A, B) == A.sch.status = "DELAYED" => B.sch.status = "DELAYED"

LabPid(rec) == <<rec.lab.kind, rec.lab.o, rec.lab.k, rec.lab.n>>
CandT(A, rec) ==
    {i \in 1..Len(A.queue) :
       /\ A.queue[i].pid = LabPid(rec)
       /\ \/ i = 1
          \/ /\ A.queue[1].p = NORMAL /\ A.queue[i].p = NORMAL
             /\ A.queue[i].t = A.queue[1].t}

LoggedProp(rec) == KM(rec.prop[1].prop)
SuccsT(A, i, rec) ==
    LET pid == A.queue[i].pid
        P == Pop(A, i)
    IN IF pid[1] = "AT" /\ Len(rec.prop) = 1 /\ P.procs[pid].ph # "done"
       THEN LET prop == LoggedProp(rec)
            IN {ATStep(P, pid, pv, prop, W, FALSE) :
                  pv \in ProvOptions(P, pid[2]),
                  W \in UNION {Winners(ApplyProv(P, pid[2], pv2), prop) : pv2 \in ProvOptions(P, pid[2])}}
       ELSE Succs(A, i)

(* is the logged proposal one the policy's contract allows? *)
ProposalOK(A, i, rec) ==
    LET pid == A.queue[i].pid
        P == Pop(A, i)
        o == pid[2]
    IN IF pid[1] = "AT" /\ Len(rec.prop) = 1 /\ P.procs[pid].ph # "done" /\ ~AlgRaises(P, o)
       THEN LET S0 == P
                rem == Remaining(P, o)
            IN \E pv \in ProvOptions(P, o) :
                 LoggedProp(rec) \in Proposals(ApplyProv(P, o, pv), o, rem, pv, P.procs[pid])
       ELSE TRUE

StepOK(A, B, rec) ==
    IF rec.lab.kind = "STOP"
    THEN \E i \in 1..Len(A.queue) : A.queue[i].pid[1] = "STOP" /\ MatchS(Pop(A, i), B)
    ELSE IF rec.lab.kind = "END"
    THEN A.queue # <<>> /\ A.queue[1].pid[1] = "CRASH"
         /\ MatchS([Pop(A, 1) EXCEPT !.crashed = A.queue[1].pid[2]], B)
    ELSE \E i \in CandT(A, rec) : \E T \in SuccsT(A, i, rec) : MatchS(T, B)

(* diagnosis: fields in which the best candidate differs *)
Diff(A, B, rec) ==
    IF rec.lab.kind \in {"STOP", "END"} \/ CandT(A, rec) = {} THEN {"no-candidate"}
    ELSE LET i == CHOOSE i \in CandT(A, rec) : TRUE
             Ts == SuccsT(A, i, rec)
         IN IF Ts = {} THEN {"no-successor"}
            ELSE LET T == CHOOSE T \in Ts : \A U \in Ts :
                            Cardinality({f \in DOMAIN Norm(T) : Norm(T)[f] # Norm(B)[f]})
                            <= Cardinality({f \in DOMAIN Norm(U) : Norm(U)[f] # Norm(B)[f]})
                 IN {f \in DOMAIN Norm(T) : Norm(T)[f] # Norm(B)[f]}

TInit == /\ tid \in 1..NT
         /\ l = 1
         /\ cur = Steps(tid)[1].d
         /\ cfg = CfgOf(TData.traces[tid].cfg)

Exact(A, rec) ==
    rec.lab.kind \in {"STOP", "END"}
    \/ (NoStop(A.queue) # <<>> /\ NoStop(A.queue)[1].pid = LabPid(rec))

TNext == /\ l < Len(Steps(tid))
         /\ LET rec == Steps(tid)[l + 1]
                cur2 == MergeD(cur, rec.d)
                A == Abs(cur)
                B == Abs(cur2)
            IN /\ cur' = cur2
               /\ l' = l + 1
               /\ IF l = 1 /\ ~MatchS(StartState, A)
                  THEN PrintT(<<"DRIFT", tid, 1, "INIT", {f \in DOMAIN Norm(A) : Norm(A)[f] # Norm(StartState)[f]}>>)
                  ELSE TRUE
               /\ IF StepOK(A, B, rec) /\ StatusOK(A, B) THEN TRUE
                  ELSE PrintT(<<"DRIFT", tid, l + 1, rec.lab.kind, Diff(A, B, rec)>>)
               /\ IF \A i \in CandT(A, rec) : ProposalOK(A, i, rec) THEN TRUE
                  ELSE PrintT(<<"PROPOSAL", tid, l + 1, rec.lab.o>>)
               /\ IF Exact(A, rec) THEN TRUE ELSE PrintT(<<"ORDER", tid, l + 1>>)
               /\ IF l + 1 = Len(Steps(tid)) THEN PrintT(<<"DONE", tid, l + 1>>) ELSE TRUE
         /\ UNCHANGED <<cfg, tid>>

TSpec == TInit /\ [][TNext]_tvars
=============================================================================
