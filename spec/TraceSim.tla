------------------------------ MODULE TraceSim ------------------------------
(* Trace validation: every event of every recorded execution of the real   *)
(* topsim must be a step of the specification (L2), and every property     *)
(* predicate must hold in / between the logged states (L1, module Props).  *)
EXTENDS TraceConv, Props, ClusterAPI, TLCExt

TData == JsonDeserialize(IOEnv.TRACE_FILE)
NT == Len(TData.traces)
Steps(i) == TData.traces[i].steps

VARIABLES tid, l, cur, emit, logd, bos, absS
tvars == <<cfg, tid, l, cur, emit, logd, bos, absS>>

MergeD(c, d) == [k \in DOMAIN c |-> IF k \in DOMAIN d THEN d[k] ELSE c[k]]

(* the schedule status is compared exactly for the policies that never report *)
(* a delayed workflow themselves; plan-following / greedy may also set it     *)
(* (workflow started later than planned), which the specification leaves open *)
Norm(T) == [T EXCEPT !.queue = NoStop(@),
                     !.sch.status = IF cfg.alg \in {"plan", "greedy"} THEN "" ELSE @]
MatchS(T, B) == Norm(T) = Norm(B)
StatusOK(A, B) == A.sch.status = "DELAYED" => B.sch.status = "DELAYED"

LabPid(rec) == <<rec.lab.kind, rec.lab.o, rec.lab.k, rec.lab.n>>
CandT(A, rec) ==
    {i \in 1..Len(A.queue) :
       /\ A.queue[i].pid = LabPid(rec)
       /\ \/ i = 1
          \/ /\ A.queue[1].p = NORMAL /\ A.queue[i].p = NORMAL
             /\ A.queue[i].t = A.queue[1].t}

LoggedProp(rec) == KM(rec.prop[1].prop)
(* processing order of the proposed entries, read off the logged successor: *)
(* the tasks handed to the cluster appear as new URGENT TP entries in queue   *)
(* order; the entries that were skipped (or raised) follow                    *)
NewTPSeq(A, B, o) ==
    LET idx == {i \in 1..Len(B.queue) : B.queue[i].pid[1] = "TP" /\ B.queue[i].pid[2] = o
                                        /\ B.queue[i].pid \notin DOMAIN A.procs}
        srt == SetToSortSeq(idx, <)
    IN [j \in 1..Len(srt) |-> B.queue[srt[j]].pid[3]]
LoggedOrders(A, B, o, prop) ==
    LET win == NewTPSeq(A, B, o)
        rest == DOMAIN prop \ SeqToSet(win)
    IN IF SeqToSet(win) \subseteq DOMAIN prop
       THEN {win \o r : r \in (IF Cardinality(rest) <= 4 THEN SetToSeqs(rest) ELSE {SetToSeq(rest)})}
       ELSE Orders(o, DOMAIN prop)
SuccsT(A, B, i, rec) ==
    LET pid == A.queue[i].pid
        P == Pop(A, i)
    IN IF pid[1] = "AT" /\ Len(rec.prop) = 1 /\ P.procs[pid].ph # "done"
       THEN LET prop == LoggedProp(rec)
            IN {ATStep(P, pid, pv, prop, ord, FALSE) :
                  pv \in ProvOptions(P, pid[2]), ord \in LoggedOrders(A, B, pid[2], prop)}
       ELSE Succs(A, i)

(* is the logged proposal one the policy's contract allows? *)
ProposalOK(A, i, rec) ==
    LET pid == A.queue[i].pid
        P == Pop(A, i)
        o == pid[2]
    IN IF pid[1] = "AT" /\ Len(rec.prop) = 1 /\ P.procs[pid].ph # "done" /\ ~AlgRaises(P, o)
       THEN LET S0 == P
                rem == Remaining(P, o)
            IN \E pv \in ProvOptions(P, o) :
                 ProposalValid(ApplyProv(P, o, pv), o, rem, pv, P.procs[pid], LoggedProp(rec))
       ELSE TRUE

(* harness set-up of the buffer histories: a fully ingested observation is  *)
(* placed in one tier (refused when it does not fit or is already resident)  *)
StoreOutcomes(A, o, inHot) ==
    LET size == ObsVol(o)
        free == IF inHot THEN A.buf.hotFree ELSE A.buf.coldFree
    IN IF free - size < 0 \/ A.obs[o].data > 0 THEN {Out(A, "Refused")}
       ELSE {Out([A EXCEPT !.obs[o].data = size, !.obs[o].status = "FINISHED",
                           !.buf.hotFree = IF inHot THEN @ - size ELSE @,
                           !.buf.coldFree = IF inHot THEN @ ELSE @ - size,
                           !.buf.hotStored = IF inHot THEN Append(@, o) ELSE @,
                           !.buf.coldStored = IF inHot THEN @ ELSE Append(@, o)], "")}
(* external calls of the API drivers (spec/ClusterAPI.tla, buffer moves) *)
CallOutcomes(A, c) ==
    CASE c.op = "Tick" -> {Out(A, "")}
      [] c.op = "ProvBatch" -> ProvBatchOutcomes(A, c.size, c.o)
      [] c.op = "Release" -> ReleaseOutcomes(A, c.o)
      [] c.op = "ProvIngest" -> SpawnPIOutcomes(A, c.o)
      [] c.op = "Alloc" -> SpawnTPOutcomes(A, <<c.o, c.k>>, c.m)
      [] c.op = "StoreHot" -> StoreOutcomes(A, c.o, TRUE)
      [] c.op = "StoreCold" -> StoreOutcomes(A, c.o, FALSE)
      [] c.op = "StartIngest" ->
            {Out(Spawn([A EXCEPT !.obs[c.o].status = "RUNNING", !.obs[c.o].ast = A.now], StPid(c.o), Loc0), "")}
      [] c.op = "H2C" -> {Out(Spawn([A EXCEPT !.nmove = @ + 1], H2cPid(A.nmove + 1), Loc0), "")}
      [] c.op = "C2H" -> {Out(Spawn([A EXCEPT !.nmove = @ + 1], C2hPid(A.nmove + 1), Loc0), "")}
      [] OTHER -> {}
StepOK(A, B, rec) ==
    IF rec.lab.kind = "CALL"
    THEN \E x \in CallOutcomes([A EXCEPT !.crashed = ""], rec.call) : x.raised = rec.callexc /\ MatchS(x.st, B)
    ELSE IF rec.lab.kind = "STOP"
    THEN /\ B.now >= A.now
         /\ \A i \in 1..Len(A.queue) : A.queue[i].pid[1] = "STOP" \/ A.queue[i].t >= B.now
         /\ MatchS([A EXCEPT !.now = B.now], B)
    ELSE IF rec.lab.kind = "STOPR"
    THEN (* first event after start(k) / resume(u) returned: the only thing that *)
         (* happened in between is the caller-side collate of pending entries    *)
         MatchS(Collate(A), B) \/ MatchS(A, B)
    ELSE IF rec.lab.kind = "END"
    THEN A.queue # <<>> /\ NoStop(A.queue)[1].pid[1] = "CRASH"
         /\ \E i \in 1..Len(A.queue) : A.queue[i].pid[1] = "CRASH"
                /\ MatchS([Pop(A, i) EXCEPT !.crashed = A.queue[i].pid[2]], B)
    ELSE \E i \in CandT(A, rec) : \E T \in SuccsT(A, B, i, rec) : MatchS(T, B)

(* diagnosis: fields in which the best candidate differs *)
Diff(A, B, rec) ==
    IF rec.lab.kind = "CALL"
    THEN (IF CallOutcomes(A, rec.call) = {} THEN {"no-outcome"}
          ELSE LET x == CHOOSE x \in CallOutcomes(A, rec.call) : TRUE
               IN {f \in DOMAIN Norm(B) : Norm(x.st)[f] # Norm(B)[f]} \cup (IF x.raised # rec.callexc THEN {"raised"} ELSE {}))
    ELSE IF rec.lab.kind = "STOP" THEN {f \in DOMAIN Norm(B) : Norm([A EXCEPT !.now = B.now])[f] # Norm(B)[f]}
    ELSE IF rec.lab.kind \in {"END", "STOPR"} \/ CandT(A, rec) = {} THEN {"no-candidate"}
    ELSE LET i == CHOOSE i \in CandT(A, rec) : TRUE
             Ts == SuccsT(A, B, i, rec)
         IN IF Ts = {} THEN {"no-successor"}
            ELSE LET T == CHOOSE T \in Ts : \A U \in Ts :
                            Cardinality({f \in DOMAIN Norm(T) : Norm(T)[f] # Norm(B)[f]})
                            <= Cardinality({f \in DOMAIN Norm(U) : Norm(U)[f] # Norm(B)[f]})
                 IN {f \in DOMAIN Norm(T) : Norm(T)[f] # Norm(B)[f]}

(* ---- event hand-over bookkeeping (C13) ---- *)
Tag(seq, a) == [i \in 1..Len(seq) |-> [a |-> a, t |-> seq[i].t, o |-> seq[i].o, r |-> seq[i].r, e |-> seq[i].e]]
IsPrefixOf(s, u) == Len(s) <= Len(u) /\ SubSeq(u, 1, Len(s)) = s
NewIn(s, u) == IF IsPrefixOf(s, u) THEN SubSeq(u, Len(s) + 1, Len(u)) ELSE u
NewEmitted(A, B) == Tag(NewIn(A.ev.tel, B.ev.tel), "instrument") \o Tag(NewIn(A.ev.sch, B.ev.sch), "scheduler")
                    \o Tag(NewIn(A.ev.buf, B.ev.buf), "buffer")
PendingOf(B) == Tag(B.ev.tel, "instrument") \o Tag(B.ev.sch, "scheduler") \o Tag(B.ev.buf, "buffer")
NoLoss(em, lg, B) == \A x \in RangeOf(em) : CountIn(lg, x) + CountIn(PendingOf(B), x) >= CountIn(em, x)
NoDup(em, lg) == \A x \in RangeOf(lg) : CountIn(lg, x) <= CountIn(em, x)

(* each life-cycle transition of an observation is emitted at most once *)
LifeCycle == {<<"instrument", "telescope", "started">>, <<"instrument", "telescope", "finished">>,
              <<"buffer", "buffer", "added">>, <<"buffer", "buffer", "removed">>,
              <<"scheduler", "queue", "added">>, <<"scheduler", "queue", "removed">>,
              <<"scheduler", "allocation", "started">>, <<"scheduler", "allocation", "stopped">>}
UniqueKinds(em) ==
    \A i, j \in 1..Len(em) :
        (i # j /\ <<em[i].a, em[i].r, em[i].e>> \in LifeCycle)
        => ~(em[i].a = em[j].a /\ em[i].o = em[j].o /\ em[i].r = em[j].r /\ em[i].e = em[j].e)

(* every entry is stamped with the time at which it was emitted, and the    *)
(* life-cycle transitions and their entries correspond one to one           *)
Has(new, a, o, r, e) == \E i \in 1..Len(new) : new[i].a = a /\ new[i].o = o /\ new[i].r = r /\ new[i].e = e
StampOK(new, B) == \A i \in 1..Len(new) : new[i].t = B.now
CorrespOK(A, B, new) ==
    \A o \in ObsNames :
      /\ (A.obs[o].ast = NoneT /\ B.obs[o].ast # NoneT) <=> Has(new, "instrument", o, "telescope", "started")
      /\ (A.obs[o].status # "FINISHED" /\ B.obs[o].status = "FINISHED") <=> Has(new, "instrument", o, "telescope", "finished")
      /\ (o \notin A.sch.queue /\ o \in B.sch.queue) <=> Has(new, "scheduler", o, "queue", "added")
      /\ (o \in A.sch.queue /\ o \notin B.sch.queue) <=> Has(new, "scheduler", o, "queue", "removed")
      /\ (o \in A.sch.queue /\ o \notin B.sch.queue) => (Has(new, "scheduler", o, "allocation", "stopped")
                                                        /\ Has(new, "buffer", o, "buffer", "removed"))
      /\ (A.obs[o].planAst = NoneT /\ B.obs[o].planAst # NoneT) <=> Has(new, "scheduler", o, "allocation", "started")
      /\ Has(new, "buffer", o, "buffer", "added") => (A.obs[o].data = 0 /\ B.obs[o].status = "RUNNING")
      /\ (A.obs[o].data = 0 /\ B.obs[o].data > 0 /\ B.obs[o].status = "RUNNING") => Has(new, "buffer", o, "buffer", "added")

(* columns no listed property mentions but the specification models (L2) *)
RowExtraOK(A, row) ==
    /\ row.observations_delayed =            \* (the harness reports both columns in ticks)
          SumFunction([o \in {o \in ObsNames : A.obs[o].status = "WAITING" /\ A.now > EstT(o)} |->
                         A.now - EstT(o)])
    /\ row.delay_offset = A.sch.doff
    /\ row.schedule_status = A.sch.status
RowOK(A, row) == \A c \in DOMAIN TrueRow(A) : row[c] = TrueRow(A)[c]

Report(ok, tag, i, what) == IF ok THEN TRUE ELSE PrintT(<<tag, tid, i, what>>)

EndChecks(tr, i) ==
    LET e == tr.end
        X == Abs(e.st)
    IN /\ Report(cfg.alg = "adv" \/ tr.cfg.api \/ ~FeasibleCfg(cfg) \/ (e.exc.type = "" /\ ~e.budget), "L1", i, "C05.completes")
       /\ Report(cfg.alg = "adv" \/ tr.cfg.api \/ ~FeasibleCfg(cfg) \/ e.budget \/ e.t <= SerialBound * K, "L1", i, "C05.bound")
       /\ Report((\E o \in ObsNames : OCfg(o).rate > cfg.hotRate) => e.exc.type = "ValueError", "L1", i, "C07.rejects")
       (* a run that was cut off in a state in which nothing will ever happen again  *)
       (* (only the five actors alive, everything observed, nothing queued, nothing  *)
       (* running, no tier move ever made): the last workflow is over, so the        *)
       (* buffers are back at full free capacity                                     *)
       /\ Report(~(e.budget /\ ~tr.cfg.api /\ e.exc.type = "" /\ X.nmove = 0 /\ X.crashed = ""
                   /\ (\A p \in DOMAIN X.procs : p[1] \in {"Mon", "Tel", "Clu", "Sch", "Buf"})
                   /\ (\A o \in ObsNames : X.obs[o].status = "FINISHED")
                   /\ X.sch.queue = {} /\ X.cl.running = {})
                 \/ End_C07(X), "L1", i, "C07.stuck")
       (* one row per simulated timestep, however the run was driven and however *)
       (* long it went on after the work was done                                *)
       /\ Report(tr.cfg.api \/ e.budget \/ e.exc.type # "" \/ Len(e.rows) = e.t \div K, "L1", i, "C12.rows")
       /\ IF e.completed /\ e.exc.type = "" /\ Len(tr.segs) = 0 /\ ~tr.cfg.api
          THEN /\ Report(End_C02(X), "L1", i, "C02.end")
               /\ Report(End_C04(X), "L1", i, "C04.end")
               /\ Report(Len(e.tasktable) = Card(DOMAIN X.tasks)
                         /\ Card({e.tasktable[j].id : j \in 1..Len(e.tasktable)}) = Len(e.tasktable),
                         "L1", i, "C04.table")
               /\ Report(\A j \in 1..Len(e.tasktable) :
                            LET r == e.tasktable[j]  t == <<r.o, r.k>>
                            IN t \in DOMAIN X.tasks /\ r.ast = X.tasks[t].ast /\ r.aft = X.tasks[t].aft,
                         "L1", i, "C04.tablerows")
               (* the recorded start / finish of the returned table are the times the tasks really had *)
               /\ Report(\A j \in 1..Len(e.tasktable) :
                            LET r == e.tasktable[j]  t == <<r.o, r.k>>
                            IN t \in DOMAIN X.tasks => (r.ast = X.tasks[t].ast /\ r.aft = X.tasks[t].aft),
                         "L1", i, "C03.table")
               (* ... and what the table says about a task's duration is the time it occupied its machine *)
               /\ Report(\A j \in 1..Len(e.tasktable) :
                            LET r == e.tasktable[j]  t == <<r.o, r.k>>
                            IN (t \in DOMAIN X.tasks /\ X.tasks[t].aft # NoneT) => r.aft - r.ast = X.tasks[t].aft - X.tasks[t].ast,
                         "L1", i, "C06.table")
               /\ Report(End_C07(X), "L1", i, "C07.end")
               /\ Report(End_C13_complete(e.log), "L1", i, "C13.complete")
               /\ IF End_C13_complete(e.log) THEN Report(End_C13_order(e.log), "L1", i, "C13.order") ELSE TRUE
               /\ IF End_C13_complete(e.log) THEN Report(End_C13_times(e.log, X), "L1", i, "C13.times") ELSE TRUE
               /\ Report(\A x \in RangeOf(emit) : CountIn(e.log, x) = CountIn(emit, x), "L1", i, "C13.handover")
          ELSE TRUE

TInit == /\ tid \in 1..NT
         /\ emit = <<>> /\ logd = <<>>
         /\ l = 1
         /\ cur = Steps(tid)[1].d
         /\ cfg = CfgOf(TData.traces[tid].cfg)
         /\ absS = Abs(cur)
         /\ bos = absS

Exact(A, rec) ==
    rec.lab.kind \in {"STOP", "STOPR", "END", "CALL"}
    \/ (NoStop(A.queue) # <<>> /\ NoStop(A.queue)[1].pid = LabPid(rec))

TNext == /\ l < Len(Steps(tid))
         /\ LET rec == Steps(tid)[l + 1]
                cur2 == MergeD(cur, rec.d)
                A == absS
                B == Abs(cur2)
                em2 == emit \o NewEmitted(A, B)
                lg2 == logd \o rec.newlog
            IN /\ cur' = cur2
               /\ absS' = B
               /\ l' = l + 1
               /\ emit' = em2 /\ logd' = lg2
               /\ \A n \in RangeOf(InvNames) : Report(InvHolds(B, n), "L1", l + 1, n)
               /\ \A n \in RangeOf(TrNames) : Report(TrHolds(A, B, n), "L1", l + 1, n)
               /\ Report(Truth_C19(B, cur2.q), "L1", l + 1, "C19.truth")
               (* a refused *cluster* call: the event is the cluster's own process   *)
               (* (task allocation, ingest provisioning) or a direct call            *)
               /\ Report((rec.raised = "" /\ rec.callexc = "") \/ rec.lab.kind \notin {"TP", "PI", "CALL"} \/ B.cl = A.cl,
                         "L1", l + 1, "C02.refused")
               /\ bos' = IF Boundary(A, B) THEN A ELSE bos
               /\ Report(Len(rec.rows) = 0 \/ (Len(rec.rows) = 1 /\ RowOK(IF Boundary(A, B) \/ l = 1 THEN A ELSE bos, rec.rows[1])), "L1", l + 1, "C12.row")
               /\ Report(NoLoss(em2, lg2, B), "L1", l + 1, "C13.noloss")
               /\ Report(NoDup(em2, lg2), "L1", l + 1, "C13.nodup")
               /\ Report(em2 = emit \/ UniqueKinds(em2), "L1", l + 1, "C13.unique")
               /\ Report(StampOK(NewEmitted(A, B), B), "L1", l + 1, "C13.stamp")
               /\ Report(cfg.api \/ rec.lab.kind = "STOPR" \/ CorrespOK(A, B, NewEmitted(A, B)), "L1", l + 1, "C13.corresp")
               /\ Report(\A o \in ObsNames : OCfg(o).rate > cfg.hotRate => B.obs[o].data = 0, "L1", l + 1, "C07.overrate")
               (* a machine keeps the speed and bandwidth the configuration gave it *)
               /\ Report("mach" \notin DOMAIN rec
                         \/ \A j \in 1..Len(rec.mach) :
                               rec.mach[j].id \in Machines => (rec.mach[j].cpu = Cpu(rec.mach[j].id) /\ rec.mach[j].bw = Bw(rec.mach[j].id)),
                         "L1", l + 1, "C06.speed")
               /\ IF l + 1 = Len(Steps(tid)) THEN EndChecks(TData.traces[tid], l + 1) ELSE TRUE
               /\ IF l = 1 /\ ~TData.traces[tid].cfg.api /\ ~MatchS(StartState, A)
                  THEN PrintT(<<"DRIFT", tid, 1, "INIT", {f \in DOMAIN Norm(A) : Norm(A)[f] # Norm(StartState)[f]}>>)
                  ELSE TRUE
               /\ IF StepOK(A, B, rec) /\ StatusOK(A, B) THEN TRUE
                  ELSE PrintT(<<"DRIFT", tid, l + 1, rec.lab.kind, Diff(A, B, rec)>>)
               /\ IF \A i \in CandT(A, rec) : ProposalOK(A, i, rec) THEN TRUE
                  ELSE PrintT(<<"PROPOSAL", tid, l + 1, rec.lab.o>>)
               /\ IF Len(rec.rows) = 1 /\ ~RowExtraOK(IF Boundary(A, B) \/ l = 1 THEN [A EXCEPT !.now = B.now] ELSE [bos EXCEPT !.now = B.now], rec.rows[1])
                  THEN PrintT(<<"DRIFT", tid, l + 1, "ROW-extra-columns">>) ELSE TRUE
               /\ IF Exact(A, rec) THEN TRUE ELSE PrintT(<<"ORDER", tid, l + 1>>)
               /\ IF l + 1 = Len(Steps(tid)) THEN PrintT(<<"DONE", tid, l + 1>>) ELSE TRUE
         /\ UNCHANGED <<cfg, tid>>

TSpec == TInit /\ [][TNext]_tvars
=============================================================================
