------------------------------ MODULE MC_Smoke ------------------------------
EXTENDS TopSim
WfA == [ est |-> 0, estT |-> 0, dur |-> 2, demand |-> 2, ing |-> 1, rate |-> 1,
         nodes |-> {1,2,3}, torder |-> <<1,2,3>>, comp |-> (1 :> 4 @@ 2 :> 2 @@ 3 :> 1),
         data |-> (1 :> 0 @@ 2 :> 0 @@ 3 :> 0),
         edges |-> {<<1,2>>, <<1,3>>}, vol |-> (<<1,2>> :> 2 @@ <<1,3>> :> 0) ]
WfB == [ est |-> 1, estT |-> 1, dur |-> 3, demand |-> 2, ing |-> 1, rate |-> 1,
         nodes |-> {1}, torder |-> <<1>>, comp |-> (1 :> 2), data |-> (1 :> 0),
         edges |-> {}, vol |-> EmptyFn ]
Cfg1 == [ K |-> 1,
          mach |-> ("m0" :> [cpu |-> 2, bw |-> 1] @@ "m1" :> [cpu |-> 1, bw |-> 1] @@ "m2" :> [cpu |-> 1, bw |-> 1]),
          arrays |-> 4, maxIngest |-> 2, hotCap |-> 20, coldCap |-> 20, hotRate |-> 5, coldRate |-> 2,
          order |-> <<"a", "b">>, obs |-> ("a" :> WfA @@ "b" :> WfB),
          alg |-> "batch", parts |-> 1, minPer |-> 1, split |-> EmptyFn,
          extra |-> (<<"a", 2>> :> 1), plan |-> EmptyFn, advRounds |-> 0, advProv |-> 0, perm |-> {}, canon |-> TRUE, seg |-> FALSE, api |-> FALSE ]
MCConfigs == {Cfg1}
NotDone == run = "running"
TimeBound == S.now <= 40
=============================================================================
