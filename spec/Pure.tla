-------------------------------- MODULE Pure --------------------------------
(* Contracts of the pure functions behind C14 (plan generation), C16       *)
(* (timestep units), C15 (delay model) and C06 (task runtime), written as  *)
(* input/output relations.  TLC is the oracle: it enumerates the input     *)
(* space (the Inputs sets), judges  every (input, output) record obtained from  *)
(* the real functions; it also checks that the records cover the whole     *)
(* enumerated input space.                                                 *)
EXTENDS Integers, Sequences, FiniteSets, TLC, Json, IOUtils, SequencesExt, Functions

RangeOf(s) == {s[i] : i \in 1..Len(s)}
MaxI(a, b) == IF a >= b THEN a ELSE b

(* ------------------------------- C14 ------------------------------------ *)
(* input: n nodes 0..n-1 (inserted in that order), edges u -> v with u < v, *)
(* comp[k] = k + 1, data per `dv` variant, vol(u,v) = (u + 2v) mod 4 (some   *)
(* edges carry no data), name, clock; rev: every edge reversed (labels then  *)
(* decrease along every path)                                                *)
DagEdgeSets(n) == SUBSET {<<u, v>> \in (0..(n - 1)) \X (0..(n - 1)) : u < v}
PlanInputs ==
    {[n |-> n, edges |-> es, dv |-> dv, name |-> nm, clock |-> ck, rev |-> rv, half |-> FALSE] :
        n \in 1..4, es \in UNION {DagEdgeSets(m) : m \in 1..4}, dv \in {"none", "all", "odd"},
        nm \in {"a", "obs_x"}, ck \in {0, 7}, rv \in BOOLEAN}
ValidPlanInput(x) == x.edges \in DagEdgeSets(x.n)
HasData(x, k) == x.dv = "all" \/ (x.dv = "odd" /\ k % 2 = 1)
TaskId(x, k) == x.name \o "_" \o ToString(x.clock) \o "_" \o ToString(k)
RawEdges(x) == {<<e.u, e.v>> : e \in RangeOf(x.edges)}
InEdges(x) == IF x.rev THEN {<<e.v, e.u>> : e \in RangeOf(x.edges)} ELSE RawEdges(x)
EdgeVol(u, v) == IF u < v THEN (u + 2 * v) % 4 ELSE (v + 2 * u) % 4

(* x: input as logged (edges as a list of [u, v]); p: the generated plan    *)
PlanOK(x, p) ==
    LET E == InEdges(x)
        N == 0..(x.n - 1)
        ts == p.tasks
        pos(k) == CHOOSE i \in 1..Len(ts) : ts[i].gid = k
        byk(k) == ts[pos(k)]
    IN /\ Len(ts) = x.n
       /\ {ts[i].gid : i \in 1..Len(ts)} = N
       /\ \A k \in N :
            /\ byk(k).id = TaskId(x, k)
            (* demands are carried over exactly, whole numbers or not (logged doubled) *)
            /\ byk(k).flops2 = 2 * (k + 1) + (IF x.half THEN 1 ELSE 0)
            /\ byk(k).data2 = IF HasData(x, k) THEN 4 + (IF x.half THEN 1 ELSE 0) ELSE 0
            /\ RangeOf(byk(k).pred) = {TaskId(x, u) : u \in {u \in N : <<u, k>> \in E}}
            /\ Len(byk(k).pred) = Cardinality({u \in N : <<u, k>> \in E})
            /\ {<<q.p, q.v>> : q \in RangeOf(byk(k).io)} = {<<TaskId(x, u), EdgeVol(u, k)>> : u \in {u \in N : <<u, k>> \in E}}
       /\ Cardinality({ts[i].id : i \in 1..Len(ts)}) = x.n
       /\ \A e \in E : pos(e[1]) < pos(e[2])                 \* topological order
       /\ {<<e.u, e.v>> : e \in RangeOf(p.edges)} = {<<TaskId(x, e[1]), TaskId(x, e[2])>> : e \in E}
       /\ \A k \in N :
            /\ RangeOf(byk(k).qpred) = {TaskId(x, u) : u \in {u \in N : <<u, k>> \in E}}
            /\ RangeOf(byk(k).qsucc) = {TaskId(x, v) : v \in {v \in N : <<k, v>> \in E}}
       /\ \A a, b \in N : (TaskId(x, a) \in RangeOf(byk(b).qpred)) <=> (TaskId(x, b) \in RangeOf(byk(a).qsucc))

(* ------------------------------- C16 ------------------------------------ *)
Units == {"absent", "seconds", "minutes", "hours", "int"}
UnitInts == {1, 2, 7, 60, 75, 90, 300, 600, 3600}
Mult(u, ui) == CASE u = "minutes" -> 60 [] u = "hours" -> 3600 [] u = "int" -> ui [] OTHER -> 1
(* raw values are whole multiples: start/duration given as (steps x mult),  *)
(* rates as per-second values                                               *)
RealTimeRate == -1
ConfigInputs == {[unit |-> u, ui |-> ui, start |-> s, dur |-> d, rate |-> r, flops |-> f, bw |-> b, hotrate |-> h, coldrate |-> c, half |-> FALSE] :
                   u \in Units, ui \in UnitInts, s \in {0, 3, 7}, d \in {1, 5, 7, 15, 29}, r \in {1, 4}, f \in {2, 7}, b \in {1, 3},
                   h \in {5}, c \in {2}}
                \cup
                {[unit |-> u, ui |-> ui, start |-> sd[1], dur |-> sd[2], rate |-> 4, flops |-> 2, bw |-> 3, hotrate |-> 5, coldrate |-> RealTimeRate, half |-> FALSE] :
                   u \in Units, ui \in UnitInts, sd \in {<<0, 1>>, <<7, 29>>}}
                \cup
                {[unit |-> u, ui |-> ui, start |-> 3, dur |-> 5, rate |-> 1, flops |-> 2, bw |-> 1, hotrate |-> 5, coldrate |-> 2, half |-> TRUE] :
                   u \in Units, ui \in UnitInts}
ConfigOK(x, y) ==
    LET m == Mult(x.unit, x.ui)
    IN /\ y.raw_start = x.start * m /\ y.raw_dur = x.dur * m    \* what the JSON file contained
       /\ y.obs.start = x.start /\ y.obs.dur = x.dur             \* parsed = raw / m
       /\ y.obs.rate = x.rate * m
       /\ y.obs.demand = 3 /\ y.total_arrays = 8 /\ y.max_ingest = 2 /\ y.ingest_demand = 2
       /\ y.mach.cpu2 = (2 * x.flops + (IF x.half THEN 1 ELSE 0)) * m
       /\ y.mach.bw2 = (2 * x.bw + (IF x.half THEN 1 ELSE 0)) * m
       /\ y.sysbw = 4 * m
       (* a non-positive cold rate is a marker (`real time`), it stays non-positive; the hot *)
       (* tier's limit is scaled like every other rate whatever the cold tier says          *)
       /\ y.hot.rate = x.hotrate * m
       /\ (IF x.coldrate > 0 THEN y.cold.rate = x.coldrate * m ELSE y.cold.rate <= 0)
       /\ y.hot.cap = 500 /\ y.cold.cap = 700
       (* derived: data volume and runtime in seconds do not depend on the unit *)
       /\ y.volume = x.rate * x.dur * m

(* a whole simulation of one physical system (2 flop/s machines, a 240 s     *)
(* observation producing 3 units/s) written with timestep unit x.unit: task  *)
(* runtimes, the ingest time and the data volume measured in seconds / units *)
(* are what the physical description says, whatever the unit and whatever    *)
(* the workflow file's header says                                           *)
UnitRunOK(r) ==
    /\ r.raised = ""
    /\ Len(r.tasks) = r.ntasks
    /\ \A i \in 1..Len(r.tasks) :
         LET tk == r.tasks[i]
             (* input from another machine arrives volume / (4 units/s) seconds after the producer finished *)
             arrive == {tk.preds[j].aft + tk.preds[j].vol \div 4 : j \in {j \in 1..Len(tk.preds) : ~tk.preds[j].same}}
             latest == IF arrive = {} THEN 0 ELSE CHOOSE a \in arrive : \A b \in arrive : b <= a
         IN /\ tk.sec = tk.expect
            /\ tk.ast = MaxI(tk.alloc, latest)
    /\ r.finished
    /\ r.obs_seconds = r.dur
    /\ r.vol = 3 * r.dur

(* ------------------------------- C15 ------------------------------------ *)
(* call record: [prob1000, dist, degree, seed, runtime, result, raised, again] *)
DelayOK(c) ==
    /\ c.raised = ""
    /\ c.result >= c.runtime
    /\ (c.degree = "NONE" \/ c.prob1000 = 0 \/ c.runtime = 0) => c.result = c.runtime
    /\ c.again = c.result                                 \* identical seed and arguments

(* ------------------------------- C06 ------------------------------------ *)
(* record: [flops, data, cpu, bw, extra, ast, aft] from a real Task.do_work  *)
Runtime(f, d, cpu, bw) == MaxI(1, MaxI(f \div cpu, d \div bw))
RuntimeOK(c) == c.raised = "" /\ c.aft - c.ast = MaxI(1, MaxI(c.flops \div c.cpu, c.data \div c.bw) + c.extra)
(* monotonicity of the formula itself (checked by TLC over a grid)          *)
MonotoneOK(N) ==
    \A f \in 0..N, d \in 0..N, cpu \in 1..4, bw \in 1..4 :
       /\ Runtime(f, d, cpu, bw) <= Runtime(f + 1, d, cpu, bw)
       /\ Runtime(f, d, cpu, bw) <= Runtime(f, d + 1, cpu, bw)
       /\ (cpu > 1 => Runtime(f, d, cpu, bw) <= Runtime(f, d, cpu - 1, bw))
       /\ (bw > 1 => Runtime(f, d, cpu, bw) <= Runtime(f, d, cpu, bw - 1))
       /\ Runtime(f, d, cpu, bw) >= 1

(* ------------------------------ driver ----------------------------------- *)
PData == JsonDeserialize(IOEnv.TRACE_FILE)
VARIABLE j
Report(ok, what, k) == IF ok THEN TRUE ELSE PrintT(<<"PURE", what, k>>)

CoverPlan ==
    LET got == {[n |-> r.x.n, edges |-> RawEdges(r.x), dv |-> r.x.dv, name |-> r.x.name, clock |-> r.x.clock,
                 rev |-> r.x.rev, half |-> r.x.half] : r \in RangeOf(PData.plan)}
    IN {x \in PlanInputs : ValidPlanInput(x)} \subseteq got
CoverConfig ==
    LET got == {[unit |-> r.x.unit, ui |-> r.x.ui, start |-> r.x.start, dur |-> r.x.dur, rate |-> r.x.rate,
                 flops |-> r.x.flops, bw |-> r.x.bw, hotrate |-> r.x.hotrate, coldrate |-> r.x.coldrate, half |-> r.x.half] : r \in RangeOf(PData.config)}
    IN ConfigInputs \subseteq got

PInit ==
    /\ j = 0
    /\ \A i \in 1..Len(PData.plan) : Report(PData.plan[i].raised = "" /\ PlanOK(PData.plan[i].x, PData.plan[i].y), "C14", i)
    /\ Report(PData.exhaustive = FALSE \/ Len(PData.plan) = 0 \/ CoverPlan, "C14-coverage", 0)
    /\ \A i \in 1..Len(PData.config) : Report(PData.config[i].raised = "" /\ ConfigOK(PData.config[i].x, PData.config[i].y), "C16", i)
    /\ Report(PData.exhaustive = FALSE \/ Len(PData.config) = 0 \/ CoverConfig, "C16-coverage", 0)
    /\ \A i \in 1..Len(PData.unitrun) : Report(UnitRunOK(PData.unitrun[i]), "C16-run", i)
    /\ \A i \in 1..Len(PData.delay) : Report(DelayOK(PData.delay[i]), "C15", i)
    /\ \A i \in 1..Len(PData.runtime) : Report(RuntimeOK(PData.runtime[i]), "C06", i)
    /\ Report(MonotoneOK(24), "C06-monotone", 0)
    /\ PrintT(<<"PUREDONE", Len(PData.plan), Len(PData.config), Len(PData.delay), Len(PData.runtime)>>)
PNext == UNCHANGED j
PSpec == PInit /\ [][PNext]_j
=============================================================================
